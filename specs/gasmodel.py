"""Independent execution-gas figure of a block on a concrete state (oracle of the end-to-end clause of C08).

Written from the Yellow Paper / EIP-2929 / EIP-2200 / EIP-3855, not from the tool's tables: static cost per opcode (specs/cost.py),
warm/cold surcharge per storage slot and per account decided on the CONCRETE keys of the run, storage writes priced by the
(original, current, new) values of the slot, memory expansion, and the data-dependent parts of KECCAK256, EXP, LOGn and the copy
opcodes.  The warm set is empty at block entry (the convention the tool itself uses for a block in isolation); original = current
at block entry.  Both blocks of a comparison are run on the same state, so whatever convention is used for what the block does not
determine cancels out as long as the two blocks perform the same accesses.
"""
from . import evmexec
from .cost import static_gas
from .evm import M

COLD_SLOAD, WARM, COLD_ACCOUNT = 2100, 100, 2600
SSTORE_SET, SSTORE_RESET = 20000, 2900


def words(n):
    return (n + 31) // 32


def mem_cost(w):
    return 3 * w + (w * w) // 512


class Meter(object):
    def __init__(self):
        self.gas = 0
        self.warm_slots = set()
        self.warm_accounts = set()
        self.original = {}
        self.mem_words = 0

    def expand(self, off, ln):
        if ln == 0 or off + ln > 2 ** 32:
            return 0         # absurd offsets: out-of-gas in reality, the same on both sides of a comparison
        w = words(off + ln)
        if w <= self.mem_words:
            return 0
        c = mem_cost(w) - mem_cost(self.mem_words)
        self.mem_words = w
        return c

    def charge(self, st, name, value):
        s = st.stack
        g = static_gas(name)
        if name == 'PUSH':
            g = 2 if value == 0 and False else 3            # the PUSH0 question is a matter of C17, not of this comparison
        elif name == 'SLOAD':
            k = s[0]
            g = WARM if k in self.warm_slots else COLD_SLOAD
            self.warm_slots.add(k)
            self.original.setdefault(k, st.sread(k))
        elif name == 'SSTORE':
            k, v = s[0], s[1]
            cur = st.sread(k)
            orig = self.original.setdefault(k, cur)
            g = 0 if k in self.warm_slots else COLD_SLOAD
            self.warm_slots.add(k)
            if v == cur:
                g += WARM
            elif cur == orig:
                g += SSTORE_SET if orig == 0 else SSTORE_RESET
            else:
                g += WARM
        elif name in ('MLOAD', 'MSTORE'):
            g = 3 + self.expand(s[0], 32)
        elif name == 'MSTORE8':
            g = 3 + self.expand(s[0], 1)
        elif name in ('SHA3', 'KECCAK256'):
            g = 30 + 6 * words(min(s[1], 2 ** 32)) + self.expand(s[0], s[1])
        elif name == 'EXP':
            e = s[1]
            g = 10 + 50 * ((e.bit_length() + 7) // 8)
        elif name.startswith('LOG') and name[3:].isdigit():
            g = 375 * (int(name[3:]) + 1) + 8 * min(s[1], 2 ** 32) + self.expand(s[0], s[1])
        elif name in ('BALANCE', 'EXTCODESIZE', 'EXTCODEHASH'):
            a = s[0] % (2 ** 160)
            g = WARM if a in self.warm_accounts else COLD_ACCOUNT
            self.warm_accounts.add(a)
        elif name in ('CALLDATACOPY', 'CODECOPY', 'RETURNDATACOPY', 'MCOPY'):
            g = 3 + 3 * words(min(s[2], 2 ** 32)) + self.expand(s[0], s[2])
        elif name == 'EXTCODECOPY':
            a = s[0] % (2 ** 160)
            g = (WARM if a in self.warm_accounts else COLD_ACCOUNT) + 3 * words(min(s[3], 2 ** 32)) + self.expand(s[1], s[3])
            self.warm_accounts.add(a)
        elif name in ('RETURN', 'REVERT'):
            g = self.expand(s[0], s[1])
        elif name in ('CALL', 'CALLCODE', 'DELEGATECALL', 'STATICCALL', 'CREATE', 'CREATE2', 'SELFDESTRUCT'):
            g = 0            # ends the block in both versions with the same operands (checked by C01); priced outside the block
        elif g is None:
            g = 3 if name.startswith('PUSH') else 2 if name in evmexec.ENV0 else 0
        self.gas += g


def gas_of(items, stack, seed=0):
    """execution gas of the block on the state (stack, seed); raises evmexec.Underflow"""
    st = evmexec.State(stack, seed)
    m = Meter()
    for name, value in items:
        ar = evmexec_arity(name)
        if len(st.stack) < ar:
            raise evmexec.Underflow()
        m.charge(st, name, value)
        evmexec.step(st, name, value)
    return m.gas


def evmexec_arity(name):
    from .evm import ARITY
    if name == 'PUSH' or name.startswith('PUSH'):
        return 0
    if name.startswith('DUP') and name[3:].isdigit():
        return int(name[3:])
    if name.startswith('SWAP') and name[4:].isdigit():
        return int(name[4:]) + 1
    if name in ARITY:
        return ARITY[name]
    for table in (evmexec.EXTERNAL, evmexec.COPY):
        if name in table:
            return table[name]
    return {'SHA3': 2, 'KECCAK256': 2, 'MLOAD': 1, 'MSTORE': 2, 'MSTORE8': 2, 'SLOAD': 1, 'SSTORE': 2, 'POP': 1}.get(name, 1 if name in evmexec.ENV1 else 0)
