"""Formula denotation ev(f, sigma) (DESIGN section 3.5), an independent SMT-LIB printer and a reader.

Generic over concrete values and pyvc Sym values: literals may be symbolic, atoms are looked up in the
valuation `val` (dict name -> bool/int or Sym).  Sorts: a value is ('B', v) or ('I', v).
"""
from pyvc import sym
from pyvc.sym import Sym, sand, sor, snot, ite, sym_eq


class IllSorted(Exception):
    pass


def _is_bool_lit(f):
    return isinstance(f, bool) or (isinstance(f, Sym) and f.kind == 'bool')


def _is_int_lit(f):
    return (isinstance(f, int) and not isinstance(f, bool)) or (isinstance(f, Sym) and f.kind == 'int')


def ev(f, val):
    """returns (sort, value)"""
    if _is_bool_lit(f):
        return ('B', f)
    if _is_int_lit(f):
        return ('I', f)
    cn = type(f).__name__
    if cn == 'ExpressionReference':
        name = str(f.func)
        args = [ev(a, val) for a in f.arguments]
        sort = 'B' if f.type.name == 'boolean' else ('I' if f.type.name == 'integer' else 'U:' + f.type.name)
        key = name if not args else (name, tuple(_key(a) for a in f.arguments))
        mk = getattr(val, 'make', None)
        if mk is not None:
            return mk(f, args)
        if key not in val:
            raise KeyError("no valuation for atom %r" % (key,))
        return (sort, val[key])
    if cn == 'Connector':
        name = f.connector_name
        args = [ev(a, val) for a in f.arguments]
        if name == 'and':
            return ('B', sand(*[_b(a) for a in args]))
        if name == 'or':
            return ('B', sor(*[_b(a) for a in args]))
        if name == 'not':
            (a,) = args
            return ('B', snot(_b(a)))
        if name == '=>':
            a, b = args
            return ('B', sor(snot(_b(a)), _b(b)))
        if name == '=':
            a, b = args
            if a[0] != b[0]:
                return ('B', False)       # Bool literal vs Int literal: distinct sorts denote false
            return ('B', sym_eq(a[1], b[1]))
        if name == '<':
            a, b = args
            return ('B', _i(a) < _i(b))
        if name == '<=':
            a, b = args
            return ('B', _i(a) <= _i(b))
        if name == 'distinct':
            cs = []
            for i in range(len(args)):
                for j in range(i + 1, len(args)):
                    if args[i][0] != args[j][0]:
                        continue
                    cs.append(snot(sym_eq(args[i][1], args[j][1])))
            return ('B', sand(*cs))
        raise KeyError(name)
    raise TypeError("not a formula: %r" % (f,))


def _key(a):
    if isinstance(a, (bool, int)):
        return a
    return str(a)


def _b(sv):
    if sv[0] != 'B':
        raise IllSorted()
    return sv[1]


def _i(sv):
    if sv[0] != 'I':
        raise IllSorted()
    return sv[1]


def same(a, b):
    """equality of two denotations (sort, value) as a truth value"""
    if a[0] != b[0]:
        return False
    return sym_eq(a[1], b[1]) if (isinstance(a[1], Sym) or isinstance(b[1], Sym)) else (a[1] == b[1])


# ---------------------------------------------------------------- independent printer
def smtlib(f):
    if isinstance(f, bool):
        return "true" if f else "false"
    if isinstance(f, int):
        return str(f) if f >= 0 else "(- %d)" % -f          # SMT-LIB numerals are non-negative
    cn = type(f).__name__
    if cn == 'ExpressionReference':
        if len(f.arguments) == 0:
            return str(f.func)
        return "(" + " ".join([str(f.func)] + [smtlib(a) for a in f.arguments]) + ")"
    return "(" + " ".join([f.connector_name] + [smtlib(a) for a in f.arguments]) + ")"


# ---------------------------------------------------------------- reader
def tokenize(s):
    return s.replace('(', ' ( ').replace(')', ' ) ').split()


def read(tokens):
    t = tokens.pop(0)
    if t == '(':
        out = []
        while tokens[0] != ')':
            out.append(read(tokens))
        tokens.pop(0)
        return out
    if t == ')':
        raise SyntaxError("unexpected )")
    return t


def parse(text):
    toks = tokenize(text)
    tree = read(toks)
    if toks:
        raise SyntaxError("trailing tokens")
    return tree


def ev_tree(t, val, sorts):
    """evaluate a parsed s-expression; sorts: atom name -> 'B'/'I'"""
    if isinstance(t, str):
        if t == 'true':
            return ('B', True)
        if t == 'false':
            return ('B', False)
        if t.isdigit():
            if len(t) > 1 and t[0] == '0':
                raise SyntaxError("not an SMT-LIB numeral: %r" % t)
            return ('I', int(t))
        if t.lstrip('-').isdigit():
            raise SyntaxError("not an SMT-LIB numeral (a negative constant is written (- n)): %r" % t)
        return (sorts[t], val[t])
    if t[0] == '-' and len(t) == 2:
        a = ev_tree(t[1], val, sorts)
        return ('I', -_i(a))
    if t[0] == 'distinct' and len(t) < 3:
        raise SyntaxError("distinct needs at least two arguments")
    head, args = t[0], [ev_tree(a, val, sorts) for a in t[1:]]
    if head == 'and':
        return ('B', sand(*[_b(a) for a in args]))
    if head == 'or':
        return ('B', sor(*[_b(a) for a in args]))
    if head == 'not':
        return ('B', snot(_b(args[0])))
    if head == '=>':
        return ('B', sor(snot(_b(args[0])), _b(args[1])))
    if head == '=':
        if args[0][0] != args[1][0]:
            return ('B', False)
        return ('B', sym_eq(args[0][1], args[1][1]))
    if head == '<':
        return ('B', _i(args[0]) < _i(args[1]))
    if head == '<=':
        return ('B', _i(args[0]) <= _i(args[1]))
    if head == 'distinct':
        cs = []
        for i in range(len(args)):
            for j in range(i + 1, len(args)):
                if args[i][0] == args[j][0]:
                    cs.append(snot(sym_eq(args[i][1], args[j][1])))
        return ('B', sand(*cs))
    key = (head, tuple(_tkey(a) for a in t[1:]))
    return (sorts[head], val[key])


def _tkey(a):
    if isinstance(a, str):
        if a == 'true':
            return True
        if a == 'false':
            return False
        if a.lstrip('-').isdigit():
            return int(a)
        return a
    if a[0] == '-' and len(a) == 2 and isinstance(a[1], str) and a[1].isdigit():
        return -int(a[1])
    return " ".join([a[0]] + [str(_tkey(x)) for x in a[1:]])
