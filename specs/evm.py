"""EVM word semantics (DESIGN section 3.1): the oracle, written from the EVM definition.

Three renderings of the same semantics:
  evm_py    : plain Python ints (used by native replay and by the cross-check)
  evm_int   : z3 Int terms modulo 2^256 (pow2 / pw uninterpreted, shared with the engine)
  evm_bv    : z3 BitVec(256) terms
Operand order is stack order: op(a, b) with a = top of stack.
"""
import z3
from pyvc import sym
from pyvc.sym import Sym, WORD, pow2_term, pw, pw_term, bit_term

M = WORD
HALF = 2 ** 255

ARITY = {
    'ADD': 2, 'MUL': 2, 'SUB': 2, 'DIV': 2, 'SDIV': 2, 'MOD': 2, 'SMOD': 2, 'ADDMOD': 3, 'MULMOD': 3, 'EXP': 2,
    'SIGNEXTEND': 2, 'LT': 2, 'GT': 2, 'SLT': 2, 'SGT': 2, 'EQ': 2, 'ISZERO': 1, 'AND': 2, 'OR': 2, 'XOR': 2,
    'NOT': 1, 'BYTE': 2, 'SHL': 2, 'SHR': 2, 'SAR': 2,
}
COMMUTATIVE = {'ADD', 'MUL', 'AND', 'OR', 'XOR', 'EQ'}


def _sg(x):
    return x - M if x >= HALF else x


def evm_py(op, a, b=None, c=None):
    if op == 'ADD':
        return (a + b) % M
    if op == 'MUL':
        return (a * b) % M
    if op == 'SUB':
        return (a - b) % M
    if op == 'DIV':
        return 0 if b == 0 else a // b
    if op == 'SDIV':
        if b == 0:
            return 0
        sa, sb = _sg(a), _sg(b)
        q = abs(sa) // abs(sb)
        if (sa < 0) != (sb < 0):
            q = -q
        return q % M
    if op == 'MOD':
        return 0 if b == 0 else a % b
    if op == 'SMOD':
        if b == 0:
            return 0
        sa, sb = _sg(a), _sg(b)
        r = abs(sa) % abs(sb)
        if sa < 0:
            r = -r
        return r % M
    if op == 'ADDMOD':
        return 0 if c == 0 else (a + b) % c
    if op == 'MULMOD':
        return 0 if c == 0 else (a * b) % c
    if op == 'EXP':
        return pow(a, b, M)
    if op == 'SIGNEXTEND':
        if a >= 31:
            return b
        t = 8 * a + 7
        mask = (1 << (t + 1)) - 1
        if (b >> t) & 1:
            return b | (M - 1 - mask)
        return b & mask
    if op == 'LT':
        return 1 if a < b else 0
    if op == 'GT':
        return 1 if a > b else 0
    if op == 'SLT':
        return 1 if _sg(a) < _sg(b) else 0
    if op == 'SGT':
        return 1 if _sg(a) > _sg(b) else 0
    if op == 'EQ':
        return 1 if a == b else 0
    if op == 'ISZERO':
        return 1 if a == 0 else 0
    if op == 'AND':
        return a & b
    if op == 'OR':
        return a | b
    if op == 'XOR':
        return a ^ b
    if op == 'NOT':
        return M - 1 - a
    if op == 'BYTE':
        return 0 if a >= 32 else (b >> (8 * (31 - a))) & 0xff
    if op == 'SHL':
        return 0 if a >= 256 else (b << a) % M
    if op == 'SHR':
        return 0 if a >= 256 else b >> a
    if op == 'SAR':
        sb = _sg(b)
        if a >= 256:
            return 0 if sb >= 0 else M - 1
        return (sb >> a) % M
    raise KeyError(op)


# ---------------------------------------------------------------- z3 Int rendering
def _zsg(x):
    return z3.If(x >= HALF, x - M, x)


def _zabs(x):
    return z3.If(x >= 0, x, -x)


def _bvop(f, a, b):
    return z3.BV2Int(f(z3.Int2BV(a, 256), z3.Int2BV(b, 256)), False)


def evm_int(op, a, b=None, c=None, axiom=None):
    """z3 Int term; `axiom(e)` receives ground instances of pow2/pw facts"""
    def p2(e):
        if axiom is None:
            return sym.pow2(e)
        return pow2_term(e)
    if op == 'ADD':
        return (a + b) % M
    if op == 'MUL':
        return (a * b) % M
    if op == 'SUB':
        return (a - b) % M
    if op == 'DIV':
        return z3.If(b == 0, 0, a / b)
    if op == 'SDIV':
        sa, sb = _zsg(a), _zsg(b)
        q = _zabs(sa) / _zabs(sb)
        q = z3.If((sa < 0) != (sb < 0), -q, q)
        return z3.If(b == 0, 0, q % M)
    if op == 'MOD':
        return z3.If(b == 0, 0, a % b)
    if op == 'SMOD':
        sa, sb = _zsg(a), _zsg(b)
        r = _zabs(sa) % _zabs(sb)
        r = z3.If(sa < 0, -r, r)
        return z3.If(b == 0, 0, r % M)
    if op == 'ADDMOD':
        return z3.If(c == 0, 0, (a + b) % c)
    if op == 'MULMOD':
        return z3.If(c == 0, 0, (a * b) % c)
    if op == 'EXP':
        return (pw_term(a, b) if axiom else pw(a, b)) % M
    if op == 'LT':
        return z3.If(a < b, 1, 0)
    if op == 'GT':
        return z3.If(a > b, 1, 0)
    if op == 'SLT':
        return z3.If(_zsg(a) < _zsg(b), 1, 0)
    if op == 'SGT':
        return z3.If(_zsg(a) > _zsg(b), 1, 0)
    if op == 'EQ':
        return z3.If(a == b, 1, 0)
    if op == 'ISZERO':
        return z3.If(a == 0, 1, 0)
    if op == 'AND':
        return bit_term('&', a, b) if axiom else _bvop(lambda x, y: x & y, a, b)
    if op == 'OR':
        return bit_term('|', a, b) if axiom else _bvop(lambda x, y: x | y, a, b)
    if op == 'XOR':
        return bit_term('^', a, b) if axiom else _bvop(lambda x, y: x ^ y, a, b)
    if op == 'NOT':
        return M - 1 - a
    if op == 'SHL':
        return z3.If(a >= 256, 0, (b * p2(a)) % M)
    if op == 'SHR':
        return z3.If(a >= 256, 0, b / p2(a))
    if op == 'SAR':
        sb = _zsg(b)
        return z3.If(a >= 256, z3.If(sb >= 0, 0, M - 1), (sb / p2(a)) % M)
    if op == 'BYTE':
        return z3.If(a >= 32, 0, (b / p2(8 * (31 - a))) % 256)
    if op == 'SIGNEXTEND':
        t = 8 * a + 7
        lowmod = p2(t + 1)
        low = b % lowmod
        bit = (b / p2(t)) % 2
        return z3.If(a >= 31, b, z3.If(bit == 1, low + (M - lowmod), low))
    raise KeyError(op)


# ---------------------------------------------------------------- z3 BitVec rendering
def evm_bv(op, a, b=None, c=None):
    one = z3.BitVecVal(1, 256)
    zero = z3.BitVecVal(0, 256)
    if op == 'ADD':
        return a + b
    if op == 'MUL':
        return a * b
    if op == 'SUB':
        return a - b
    if op == 'DIV':
        return z3.If(b == 0, zero, z3.UDiv(a, b))
    if op == 'SDIV':
        return z3.If(b == 0, zero, a / b)
    if op == 'MOD':
        return z3.If(b == 0, zero, z3.URem(a, b))
    if op == 'SMOD':
        return z3.If(b == 0, zero, z3.SRem(a, b))
    if op == 'LT':
        return z3.If(z3.ULT(a, b), one, zero)
    if op == 'GT':
        return z3.If(z3.UGT(a, b), one, zero)
    if op == 'SLT':
        return z3.If(a < b, one, zero)
    if op == 'SGT':
        return z3.If(a > b, one, zero)
    if op == 'EQ':
        return z3.If(a == b, one, zero)
    if op == 'ISZERO':
        return z3.If(a == 0, one, zero)
    if op == 'AND':
        return a & b
    if op == 'OR':
        return a | b
    if op == 'XOR':
        return a ^ b
    if op == 'NOT':
        return ~a
    if op == 'SHL':
        return b << a      # z3 bvshl gives 0 for shift >= width
    if op == 'SHR':
        return z3.LShR(b, a)
    if op == 'SAR':
        return b >> a
    if op == 'BYTE':
        return z3.If(z3.UGE(a, 32), zero, z3.LShR(b, 8 * (31 - a)) & 0xff)
    if op == 'ADDMOD':
        w = 257
        r = z3.URem(z3.ZeroExt(1, a) + z3.ZeroExt(1, b), z3.ZeroExt(1, c))
        return z3.If(c == 0, zero, z3.Extract(255, 0, r))
    if op == 'MULMOD':
        r = z3.URem(z3.ZeroExt(256, a) * z3.ZeroExt(256, b), z3.ZeroExt(256, c))
        return z3.If(c == 0, zero, z3.Extract(255, 0, r))
    raise KeyError(op)


# ---------------------------------------------------------------- generic front
def evm(op, *args):
    """generic over python ints and Sym ints (Int rendering)"""
    if not any(isinstance(x, Sym) for x in args):
        return evm_py(op, *args)
    es = [sym._as_int_expr(x) for x in args]
    return sym.wrap(evm_int(op, *es, axiom=True))


BOUNDARY_WORDS = [0, 1, 2, 3, 5, 7, 8, 31, 32, 255, 256, 257, 2 ** 53 + 1, 2 ** 64, 2 ** 128 - 1, 2 ** 160 - 1,
                  2 ** 255 - 1, 2 ** 255, 2 ** 255 + 1, 2 ** 256 - 2, 2 ** 256 - 1, 0x10, 0xff00, 12345678901234567890]


def selfcheck(n=300, seed=0):
    """cross-check the three renderings on boundary and random words"""
    import random
    rnd = random.Random(seed)
    bad = []
    words = list(BOUNDARY_WORDS)
    count = 0
    for op, ar in sorted(ARITY.items()):
        for _ in range(n // len(ARITY) + 6):
            args = [rnd.choice(words) if rnd.random() < 0.7 else rnd.randrange(M) for _ in range(ar)]
            if op == 'EXP':
                args[1] = rnd.choice([0, 1, 2])
            exp = evm_py(op, *args)
            if op not in ('EXP', 'SIGNEXTEND'):
                try:
                    bv = z3.simplify(evm_bv(op, *[z3.BitVecVal(x, 256) for x in args]))
                    if bv.as_long() != exp:
                        bad.append((op, args, 'bv', bv.as_long(), exp))
                    count += 1
                except KeyError:
                    pass
            s = z3.Solver()
            t = evm_int(op, *[z3.IntVal(x) for x in args])
            # ground pow2/pw facts
            for e in _subterms(t):
                if z3.is_app(e) and e.decl().eq(sym.pow2) and z3.is_int_value(z3.simplify(e.arg(0))):
                    k = z3.simplify(e.arg(0)).as_long()
                    if k >= 0 and k < 600:
                        s.add(e == 2 ** k)
                if z3.is_app(e) and e.decl().eq(pw):
                    x, y = z3.simplify(e.arg(0)).as_long(), z3.simplify(e.arg(1)).as_long()
                    s.add(e == x ** y)
            s.add(t != exp)
            if s.check() != z3.unsat:
                bad.append((op, args, 'int', str(s.model()), exp))
            count += 1
    return count, bad


def _subterms(t):
    seen = set()
    st = [t]
    while st:
        e = st.pop()
        if e.get_id() in seen:
            continue
        seen.add(e.get_id())
        yield e
        st.extend(e.children())
