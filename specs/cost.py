"""Independent cost tables (DESIGN section 3.6), written from libevmasm / the Yellow Paper,
not from sfs_generator/opcodes.py or utils.py."""
from pyvc import sym
from pyvc.sym import Sym, ite


def nbytes(v):
    """minimal number of bytes of a non-negative integer, at least 1 (generic over Sym/int)"""
    if not isinstance(v, Sym):
        n = 1
        while v >= 256 ** n:
            n += 1
        return n
    r = 33
    for k in range(32, 0, -1):
        r = ite(v < 256 ** k, k, r)
    return r


def push_bytes(v, push0=False):
    """size of PUSH v : opcode + immediate ; PUSH0 when enabled and v == 0"""
    from pyvc.sym import sand
    return ite(sand(push0, v == 0), 1, 1 + nbytes(v))


PSEUDO_PUSH_BYTES = {
    'PUSH [tag]': 3, 'PUSH data': 3, 'PUSH [$]': 3, 'PUSH #[$]': 5, 'PUSHSIZE': 5, 'PUSHLIB': 21,
    'PUSHDEPLOYADDRESS': 21, 'PUSHIMMUTABLE': 33, 'ASSIGNIMMUTABLE': 35, 'tag': 0, 'PUSH0': 1,
}


def item_bytes(name, value_int=None, push0=False):
    if name == 'PUSH':
        return push_bytes(value_int, push0)
    if name in PSEUDO_PUSH_BYTES:
        return PSEUDO_PUSH_BYTES[name]
    return 1


# static gas (Yellow paper appendix G/H, EIP-2929 cold access, EIP-3855 PUSH0)
G_ZERO = {'STOP', 'RETURN', 'REVERT'}
G_BASE = {'ADDRESS', 'ORIGIN', 'CALLER', 'CALLVALUE', 'CALLDATASIZE', 'CODESIZE', 'GASPRICE', 'COINBASE', 'TIMESTAMP',
          'NUMBER', 'DIFFICULTY', 'PREVRANDAO', 'GASLIMIT', 'POP', 'PC', 'MSIZE', 'GAS', 'CHAINID', 'RETURNDATASIZE',
          'BASEFEE', 'PUSH0'}
G_VERYLOW = {'ADD', 'SUB', 'NOT', 'LT', 'GT', 'SLT', 'SGT', 'EQ', 'ISZERO', 'AND', 'OR', 'XOR', 'BYTE', 'SHL', 'SHR',
             'SAR', 'CALLDATALOAD', 'MLOAD', 'MSTORE', 'MSTORE8', 'PUSH'}
G_LOW = {'MUL', 'DIV', 'SDIV', 'MOD', 'SMOD', 'SIGNEXTEND', 'SELFBALANCE'}
G_MID = {'ADDMOD', 'MULMOD', 'JUMP'}
G_HIGH = {'JUMPI'}


def static_gas(name):
    """None when the opcode has a dynamic/other cost that the table does not fix"""
    if name in G_ZERO:
        return 0
    if name in G_BASE:
        return 2
    if name in G_VERYLOW or name.startswith('DUP') or name.startswith('SWAP'):
        return 3
    if name in G_LOW:
        return 5
    if name in G_MID:
        return 8
    if name in G_HIGH:
        return 10
    if name == 'JUMPDEST':
        return 1
    return None
