"""Evaluation of a stack/memory specification (SFS dictionary) on a concrete state under a given linearization of its
memory/storage operations (oracle side of C02; also used by C04/C05 bounded tiers)."""
import itertools

from . import evmexec
from .evm import evm_py, ARITY

ORDERED = ("MLOAD", "SLOAD", "KECCAK256", "SHA3", "MSTORE", "MSTORE8", "SSTORE", "MSIZE")   # MSIZE reads the memory size: its position matters


def is_ordered(instr):
    return instr["disasm"] in ORDERED


def linearizations(spec, limit=2000):
    """all orders of the memory/storage operations consistent with `dependencies` and with producer-before-consumer"""
    ops = [u for u in spec["user_instrs"] if is_ordered(u)]
    ids = [u["id"] for u in ops]
    prod = {}
    for u in spec["user_instrs"]:
        for o in u["outpt_sk"]:
            prod[o] = u
    before = dict((i, set()) for i in ids)

    def ordered_ancestors(u, seen):
        out = set()
        for x in u["inpt_sk"]:
            p = prod.get(x)
            if p is None or p["id"] in seen:
                continue
            seen.add(p["id"])
            if is_ordered(p):
                out.add(p["id"])
            out |= ordered_ancestors(p, seen)
        return out
    for u in ops:
        before[u["id"]] |= ordered_ancestors(u, set())
    for a, b in spec.get("dependencies", []):
        if a in before and b in before:
            before[b].add(a)
    res = []

    def rec(done, remaining):
        if len(res) >= limit:
            return
        if not remaining:
            res.append(list(done))
            return
        for i in list(remaining):
            if before[i] <= set(done):
                rec(done + [i], [r for r in remaining if r != i])
    rec([], ids)
    return res


def apply_op(st, disasm, args, value=None):
    """run one opcode on state st with explicit operands; returns the produced word or None"""
    saved = st.stack
    st.stack = list(args)
    evmexec.step(st, disasm, value)
    out = st.stack[0] if st.stack else None
    st.stack = saved
    return out


def evaluate(spec, order, stack_values, seed=0):
    """returns (final stack values, State) ; stack_values: list of words for src_ws (top first)"""
    st = evmexec.State([], seed)
    env = dict(zip(spec["src_ws"], stack_values))
    byid = dict((u["id"], u) for u in spec["user_instrs"])
    prod = {}
    for u in spec["user_instrs"]:
        for o in u["outpt_sk"]:
            prod[o] = u

    def val(v):
        if isinstance(v, int):
            return v
        if v in env:
            return env[v]
        u = prod.get(v)
        if u is None:
            raise KeyError("unbound variable %r" % (v,))
        if is_ordered(u):
            raise RuntimeError("load %s used before it is scheduled" % u["id"])
        r = run_instr(u)
        env[v] = r
        return r

    def run_instr(u):
        d = u["disasm"]
        if d == 'PUSH' or d == 'PUSH0':
            return int(u["value"][0]) if d == 'PUSH' else 0
        args = [val(x) for x in u["inpt_sk"]]
        return apply_op(st, d, args, str(u["value"][0]) if "value" in u else None)
    for i in order:
        u = byid[i]
        r = run_instr(u)
        for o in u["outpt_sk"]:
            env[o] = r
    final = [val(v) for v in spec["tgt_ws"]]
    return final, st


COMMUTATIVE_OPS = {"ADD", "MUL", "AND", "OR", "XOR", "EQ"}


def wf_violation(spec):
    """well-formedness of a specification (DESIGN 3.2): returns None or a reason"""
    from .evm import ARITY
    prod = {}
    for u in spec["user_instrs"]:
        for o in u["outpt_sk"]:
            if o in prod:
                return "variable %s has two producers (%s, %s)" % (o, prod[o], u["id"])
            if o in spec["src_ws"]:
                return "variable %s is both a source variable and an output of %s" % (o, u["id"])
            prod[o] = u["id"]
        d = u["disasm"]
        if u.get("commutative") and d not in COMMUTATIVE_OPS:
            return "%s (%s) is flagged commutative" % (u["id"], d)
        if d in COMMUTATIVE_OPS and not u.get("commutative"):
            return "%s (%s) is not flagged commutative" % (u["id"], d)
        if d in ARITY and len(u["inpt_sk"]) != ARITY[d]:
            return "%s (%s) has %d operands" % (u["id"], d, len(u["inpt_sk"]))
        if d in ("MSTORE", "SSTORE", "MSTORE8") and not u.get("storage"):
            return "%s is not flagged as a store" % u["id"]
    ids = [u["id"] for u in spec["user_instrs"]]
    if len(ids) != len(set(ids)):
        return "duplicated instruction id"
    for v in list(spec["tgt_ws"]) + [x for u in spec["user_instrs"] for x in u["inpt_sk"]]:
        if isinstance(v, str) and v not in prod and v not in spec["src_ws"]:
            return "variable %s is used but neither a source variable nor produced" % v
    # acyclic data flow
    byout = dict((o, u) for u in spec["user_instrs"] for o in u["outpt_sk"])
    state = {}

    def visit(u):
        if state.get(u["id"]) == 1:
            return True
        if state.get(u["id"]) == 2:
            return False
        state[u["id"]] = 1
        for x in u["inpt_sk"]:
            if x in byout and visit(byout[x]):
                return True
        state[u["id"]] = 2
        return False
    for u in spec["user_instrs"]:
        if visit(u):
            return "cyclic data flow through %s" % u["id"]
    for a, b in spec.get("dependencies", []):
        if a not in ids or b not in ids:
            return "dependency [%s, %s] names an unknown instruction" % (a, b)
    return None
