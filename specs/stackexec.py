"""Abstract stack machine of DESIGN section 3.3: symbolic execution of an id sequence over a specification.

The stack holds names/constants of the specification.  An instruction id of user_instrs is *defined* only if the top cells
are exactly its inpt_sk (in order, or reversed when the instruction is flagged commutative); it replaces them by its outpt_sk.
"""
import re


class Reject(Exception):
    pass


def symexec(spec, ids, max_depth=16):
    byid = dict((u["id"], u) for u in spec["user_instrs"])
    stack = list(spec["src_ws"])
    executed = []
    for k, i in enumerate(ids):
        if i == 'NOP':
            continue
        if i == 'POP':
            if not stack:
                raise Reject("POP on an empty stack at position %d" % k)
            stack.pop(0)
        elif re.fullmatch(r"DUP\d+", i):
            n = int(i[3:])
            if not (1 <= n <= max_depth):
                raise Reject("%s: depth outside 1..16" % i)
            if len(stack) < n:
                raise Reject("%s underflows (height %d) at position %d" % (i, len(stack), k))
            stack.insert(0, stack[n - 1])
        elif re.fullmatch(r"SWAP\d+", i):
            n = int(i[4:])
            if not (1 <= n <= max_depth):
                raise Reject("%s: depth outside 1..16" % i)
            if len(stack) < n + 1:
                raise Reject("%s underflows (height %d) at position %d" % (i, len(stack), k))
            stack[0], stack[n] = stack[n], stack[0]
        elif re.fullmatch(r"PUSH\d* 0x[0-9a-fA-F]+", i):
            stack.insert(0, int(i.split()[1], 16))
        elif i in byid:
            u = byid[i]
            ins = list(u["inpt_sk"])
            n = len(ins)
            if len(stack) < n:
                raise Reject("%s underflows at position %d" % (i, k))
            top = stack[:n]
            if top != ins and not (u.get("commutative") and top == list(reversed(ins))):
                raise Reject("%s at position %d finds operands %s, the specification names %s" % (i, k, top, ins))
            del stack[:n]
            for o in reversed(u["outpt_sk"]):
                stack.insert(0, o)
            executed.append(i)
        else:
            raise Reject("unknown id %r at position %d" % (i, k))
    return stack, executed


def realizes(spec, ids):
    """returns None if ids realize the specification in the sense of C04, else a reason"""
    try:
        stack, executed = symexec(spec, ids)
    except Reject as e:
        return str(e)
    if stack != list(spec["tgt_ws"]):
        return "final stack %s, specification wants %s" % (stack, spec["tgt_ws"])
    stores = [u["id"] for u in spec["user_instrs"] if u.get("storage")]
    for s in stores:
        c = executed.count(s)
        if c != 1:
            return "store %s executed %d times" % (s, c)
    pos = {}
    for k, i in enumerate(executed):
        pos.setdefault(i, []).append(k)
    for a, b in spec.get("dependencies", []):
        if a in pos and b in pos:
            if max(pos[a]) > min(pos[b]) and not (len(pos[a]) > 1 or len(pos[b]) > 1):
                return "ordering constraint [%s, %s] violated" % (a, b)
            if len(pos[a]) == 1 and len(pos[b]) >= 1 and pos[a][0] > min(pos[b]):
                return "ordering constraint [%s, %s] violated" % (a, b)
        elif a in stores and a not in pos:
            return "store %s of an ordering constraint never executed" % a
    return None
