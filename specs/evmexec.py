"""Reference executor of basic blocks on concrete machine states (oracle for the bounded tiers and for native replays).

A state is (stack top-first, memory, storage, env seed).  Memory and storage are *total* functions: bytes / slots never
written return a pseudo-random but deterministic value derived from the seed, so that "arbitrary initial memory / storage /
environment" is exercised.  Opcodes the optimizer treats as uninterpreted (environment reads, hashes, calls, ...) are
deterministic functions of their operands, of the seed and -- for state-reading ones -- of the state they read.
"""
import hashlib

from .evm import evm_py, ARITY, M

ENV0 = ["ADDRESS", "ORIGIN", "CALLER", "CALLVALUE", "CALLDATASIZE", "CODESIZE", "GASPRICE", "COINBASE", "TIMESTAMP",
        "NUMBER", "DIFFICULTY", "PREVRANDAO", "GASLIMIT", "CHAINID", "SELFBALANCE", "BASEFEE", "RETURNDATASIZE", "PC",
        "PUSHSIZE", "PUSHDEPLOYADDRESS"]
ENV1 = ["BALANCE", "CALLDATALOAD", "EXTCODESIZE", "EXTCODEHASH", "BLOCKHASH"]
ADDR160 = {"ADDRESS", "ORIGIN", "CALLER", "COINBASE"}
EXTERNAL = {"LOG0": 2, "LOG1": 3, "LOG2": 4, "LOG3": 5, "LOG4": 6, "CALL": 7, "CALLCODE": 7, "DELEGATECALL": 6, "STATICCALL": 6,
            "CREATE": 3, "CREATE2": 4, "RETURN": 2, "REVERT": 2, "JUMP": 1, "JUMPI": 2, "STOP": 0, "INVALID": 0,
            "SELFDESTRUCT": 1, "ASSIGNIMMUTABLE": 1}
COPY = {"CALLDATACOPY": 3, "CODECOPY": 3, "RETURNDATACOPY": 3, "EXTCODECOPY": 4, "MCOPY": 3}
PRODUCES = {"CALL", "CALLCODE", "DELEGATECALL", "STATICCALL", "CREATE", "CREATE2"}


def H(*parts):
    h = hashlib.sha256(repr(parts).encode()).digest()
    return int.from_bytes(h, 'big')


class Underflow(Exception):
    pass


class OutOfGas(Underflow):
    """a memory access beyond 2^64 (or a length beyond it): no real execution survives it, so a state on which the ORIGINAL block
    does this carries no claim (same treatment as a stack that is too small)"""


class State(object):
    def __init__(self, stack, seed=0, mem_init=None, sto_init=None):
        self.stack = list(stack)
        self.seed = seed
        self.mem = dict(mem_init or {})
        self.sto = dict(sto_init or {})
        self.trace = []
        # size of the active memory in bytes: some multiple of 32 at block entry, grown by every access
        self.msize = 32 * (H('msize0', seed) % 5)
        self.gas_reads = 0

    def mbyte(self, a):
        a %= M
        v = self.mem.get(a)
        if v is None:
            v = H('mem', self.seed, a) & 0xff
        return v

    def touch(self, a, n):
        if n > 0 and (a >= 2 ** 64 or n >= 2 ** 64):
            raise OutOfGas()
        if n > 0 and a + n <= 2 ** 40:
            self.msize = max(self.msize, ((a + n + 31) // 32) * 32)

    def mread(self, a, n):
        self.touch(a, n)
        return bytes(self.mbyte(a + i) for i in range(n))

    def mwrite(self, a, data):
        self.touch(a, len(data))
        for i, b in enumerate(data):
            self.mem[(a + i) % M] = b

    def sread(self, k):
        v = self.sto.get(k)
        if v is None:
            v = H('sto', self.seed, k) % M
        return v

    def pop(self, n):
        if len(self.stack) < n:
            raise Underflow()
        xs = self.stack[:n]
        del self.stack[:n]
        return xs

    def push(self, v):
        self.stack.insert(0, v % M)


def parse_plain(instrs):
    """list of plain instruction strings (AsmBlock.instructions_to_optimize_plain style, operands in hex) -> [(name, value)]"""
    out = []
    for ins in instrs:
        parts = ins.split(' ')
        if parts[0] == 'PUSH' and len(parts) == 2:
            out.append(('PUSH', int(parts[1], 16)))
        elif parts[0] == 'PUSH0':
            out.append(('PUSH', 0))
        elif parts[0].startswith('PUSH') and parts[0][4:].isdigit() and len(parts) == 2:
            v = parts[1]
            out.append(('PUSH', int(v, 16) if v.startswith('0x') else int(v)))
        elif parts[0].startswith('PUSH') or parts[0] in ('ASSIGNIMMUTABLE',):
            out.append((ins if len(parts) > 1 and not parts[-1].replace('0x', '').isalnum() else ' '.join(parts[:-1]) if len(parts) > 1 else ins,
                        parts[-1] if len(parts) > 1 else None))
        else:
            out.append((ins, None))
    return out


def step(st, name, value=None):
    if name == 'PUSH':
        st.push(value)
    elif name == 'POP':
        st.pop(1)
    elif name.startswith('DUP') and name[3:].isdigit():
        k = int(name[3:])
        if not (1 <= k <= 16) or len(st.stack) < k:
            raise Underflow()
        st.push(st.stack[k - 1])
    elif name.startswith('SWAP') and name[4:].isdigit():
        k = int(name[4:])
        if not (1 <= k <= 16) or len(st.stack) < k + 1:
            raise Underflow()
        st.stack[0], st.stack[k] = st.stack[k], st.stack[0]
    elif name in ARITY:
        args = st.pop(ARITY[name])
        st.push(evm_py(name, *args))
    elif name in ('SHA3', 'KECCAK256'):
        o, n = st.pop(2)
        if n > 0 and (o >= 2 ** 64 or n >= 2 ** 64):
            raise OutOfGas()
        if n <= 4096:
            st.push(H('keccak', st.mread(o, n)))
        else:
            st.push(H('keccak-big', o, n, st.seed))
    elif name == 'MLOAD':
        (o,) = st.pop(1)
        st.push(int.from_bytes(st.mread(o, 32), 'big'))
    elif name == 'MSTORE':
        o, v = st.pop(2)
        st.mwrite(o, v.to_bytes(32, 'big'))
    elif name == 'MSTORE8':
        o, v = st.pop(2)
        st.mwrite(o, bytes([v & 0xff]))
    elif name == 'SLOAD':
        (k,) = st.pop(1)
        st.push(st.sread(k))
    elif name == 'SSTORE':
        k, v = st.pop(2)
        st.sto[k] = v
    elif name == 'MSIZE':
        st.push(st.msize)
    elif name == 'GAS':
        st.gas_reads += 1
        st.push(H('gas', st.seed, st.gas_reads))
        st.trace.append(('GAS',))
    elif name == 'SELFBALANCE':
        st.push(H('env1', 'BALANCE', H('env', 'ADDRESS', st.seed) % (2 ** 160), st.seed))
    elif name in ENV0:
        v = H('env', name, st.seed)
        st.push(v % (2 ** 160) if name in ADDR160 else v)
    elif name in ENV1:
        (a,) = st.pop(1)
        st.push(H('env1', name, a, st.seed))
    elif name in COPY:
        args = st.pop(COPY[name])
        dst, ln = (args[0], args[2]) if name != 'EXTCODECOPY' else (args[1], args[3])
        src = args[1] if name != 'EXTCODECOPY' else args[2]
        if name == 'MCOPY':
            data = st.mread(src, min(ln, 4096)) if src < 2 ** 32 else b''
        else:
            data = bytes(H('copy', name, args[0] if name == 'EXTCODECOPY' else 0, src + i, st.seed) & 0xff for i in range(min(ln, 4096)))
        st.trace.append((name,) + tuple(args))
        if dst < 2 ** 32:
            st.mwrite(dst, data)
    elif name in EXTERNAL:
        args = st.pop(EXTERNAL[name])
        data = None
        if name.startswith('LOG') or name in ('RETURN', 'REVERT'):
            o, n = args[0], args[1]
            data = st.mread(o, n) if (n <= 4096 and o < 2 ** 32) else ('big', o, n)
        elif name in ('CALL', 'CALLCODE'):
            o, n = args[3], args[4]
            data = st.mread(o, n) if (n <= 4096 and o < 2 ** 32) else ('big', o, n)
        elif name in ('DELEGATECALL', 'STATICCALL'):
            o, n = args[2], args[3]
            data = st.mread(o, n) if (n <= 4096 and o < 2 ** 32) else ('big', o, n)
        elif name in ('CREATE', 'CREATE2'):
            o, n = args[1], args[2]
            data = st.mread(o, n) if (n <= 4096 and o < 2 ** 32) else ('big', o, n)
        sto_snapshot = tuple(sorted(st.sto.items())) if name in PRODUCES or name in ('RETURN', 'STOP', 'SELFDESTRUCT') else None
        st.trace.append((name, tuple(args), data, value, sto_snapshot))
        if name in PRODUCES:
            st.push(H('ext', name, tuple(args), data, len(st.trace), st.seed))
            # the callee may write return data into memory
            if name in ('CALL', 'CALLCODE'):
                ro, rn = args[5], args[6]
            elif name in ('DELEGATECALL', 'STATICCALL'):
                ro, rn = args[4], args[5]
            else:
                ro, rn = 0, 0
            if rn and ro < 2 ** 32:
                st.mwrite(ro, bytes(H('ret', len(st.trace), i, st.seed) & 0xff for i in range(min(rn, 4096))))
    elif name.startswith('PUSH') or name in ('PUSHLIB', 'PUSHIMMUTABLE'):
        v = H('pseudo', name, str(value))
        st.push(v % (2 ** 160) if ('LIB' in name or 'DEPLOY' in name) else v % (2 ** 32) if 'tag' in name or '$' in name or 'data' in name else v)
    elif name in ('tag', 'JUMPDEST'):
        pass
    else:
        raise KeyError("opcode not modelled: " + name)


def run(items, stack, seed=0, mem_init=None, sto_init=None):
    """items: [(name, value)].  Returns the final State (raises Underflow)"""
    st = State(stack, seed, mem_init, sto_init)
    for name, value in items:
        step(st, name, value)
    return st


def items_of_block(block):
    """AsmBlock -> [(name, value)] with numeric PUSH operands"""
    out = []
    for it in block.instructions:
        d = it.disasm
        if d == 'PUSH':
            out.append(('PUSH', int(it.value, 16)))
        elif d == 'PUSH0':
            out.append(('PUSH', 0))
        else:
            out.append((d, it.value))
    return out


def observable(st, addrs=None):
    """what a continuation can observe: stack, external trace, storage writes, memory bytes (written ones and a probe window)"""
    mem = dict((a, st.mbyte(a)) for a in (addrs if addrs is not None else st.mem.keys()))
    return dict(stack=list(st.stack), trace=list(st.trace), sto=dict(st.sto), mem=mem)


def same_behaviour(items_a, items_b, stack, seed=0):
    """(equal?, description) on one concrete state"""
    try:
        a = run(items_a, stack, seed)
    except Underflow:
        return True, "original underflows (state has too small a stack)"
    try:
        b = run(items_b, stack, seed)
    except OutOfGas:
        # running out of gas is not an observable the optimizer promises to keep (dead memory reads are dropped): no claim
        return True, "second block runs out of gas on this state"
    except Underflow:
        return False, "optimized block needs a deeper stack"
    if a.stack != b.stack:
        return False, "final stacks differ: %s vs %s" % ([hex(x) for x in a.stack[:6]], [hex(x) for x in b.stack[:6]])
    if a.trace != b.trace:
        return False, "externally visible operations differ"
    keys = set(a.sto) | set(b.sto)
    for k in keys:
        if a.sread(k) != b.sread(k):
            return False, "storage differs at key %s" % hex(k)
    addrs = set(a.mem) | set(b.mem)
    for ad in addrs:
        if a.mbyte(ad) != b.mbyte(ad):
            return False, "memory differs at byte %s" % hex(ad)
    return True, ""


SAMPLE_WORDS = [0, 1, 2, 31, 32, 33, 0x40, 0x60, 255, 256, 2 ** 160 - 1, 2 ** 255, 2 ** 255 - 1, 2 ** 256 - 1, 2 ** 256 - 2,
                0x10, 0x1f, 0x20, 7, 3]


def sample_stacks(depth, n=24, seed=0):
    import random
    rnd = random.Random(seed)
    out = [[w] * depth for w in (0, 1, 2 ** 256 - 1, 2 ** 255, 0x20)]
    # aliasing shapes: all words distinct except two positions that coincide (two keys / offsets that are the same location)
    for i in range(min(depth, 6)):
        for j in range(i + 1, min(depth, 6)):
            st = [0x40 + 0x23 * k for k in range(depth)]
            st[j] = st[i]
            out.append(st)
    for _ in range(n):
        out.append([rnd.choice(SAMPLE_WORDS) if rnd.random() < 0.75 else rnd.randrange(M) for _ in range(depth)])
    return out


def distinguishable(items_a, items_b, depth, n=24, seed=0):
    """search sample states for one that tells the two blocks apart; returns (stack, seed, reason) or None"""
    for k, stack in enumerate(sample_stacks(depth, n, seed)):
        for sd in (seed, seed + 1):
            ok, why = same_behaviour(items_a, items_b, stack, sd)
            if not ok:
                return stack, sd, why
    return None
