"""Symbolic scalar values and the per-path context of the pyvc engine.

A `Sym` wraps a z3 expression of sort Int, Bool, String or Val
(Val = VI(int) | VS(str) | VNone : the dynamically typed "stack variable or
constant" of the optimizer).  Python operators are overloaded so that the same
specification code (oracles in /verif/specs) runs on Sym and on plain ints, and
so that native containers (list.__contains__, dict ==, ...) work on symbolic
elements: every decision taken on a symbolic truth value goes through
`Path.branch`, which forks the path.

Python semantics encoded here (listed in evidence as the encoding's assumptions):
  * ints are mathematical integers; // and % are floor division / modulo,
    ZeroDivisionError on a zero divisor (explicit exceptional edge);
  * & | ^ on ints that are proved to lie in [0, 2^256) are rendered through
    256-bit vectors; otherwise the result is havocked (fresh symbol);
  * a ** b : exact when both concrete; 2 ** b is the uninterpreted `pow2`
    with ground-instantiated axioms; other symbolic powers use the
    uninterpreted `pw` (shared with the oracle);
  * int / int is *float* division: result is a FloatDiv object; math.floor of
    it is exact only when both operands < 2^53 (otherwise an uninterpreted
    value) ;
  * mixed int/str equality is False, bool is an int.
"""
import z3

WORD = 2 ** 256


class EngineError(BaseException):
    """Internal engine condition; never caught by interpreted `except:`."""


class Unsupported(EngineError):
    pass


class Infeasible(EngineError):
    pass


class PathLimit(EngineError):
    pass


# --------------------------------------------------------------------------
# sorts
Val = z3.Datatype('Val')
Val.declare('VI', ('iv', z3.IntSort()))
Val.declare('VS', ('sv', z3.StringSort()))
Val.declare('VNone')
Val = Val.create()

pow2 = z3.Function('pow2', z3.IntSort(), z3.IntSort())
pw = z3.Function('pw', z3.IntSort(), z3.IntSort(), z3.IntSort())
fdiv_floor = z3.Function('fdiv_floor', z3.IntSort(), z3.IntSort(), z3.IntSort())
numeral = z3.Function('numeral', z3.StringSort(), z3.BoolSort())      # int(s) succeeds
numval = z3.Function('numval', z3.StringSort(), z3.IntSort())         # int(s)
int2str = z3.Function('int2str', z3.IntSort(), z3.StringSort())       # str(i)

_CTX = [None]


def cur():
    c = _CTX[0]
    if c is None:
        raise Unsupported("symbolic operation outside of a path context")
    return c


def set_cur(c):
    _CTX[0] = c


def is_sym(x):
    return isinstance(x, Sym)


def kind(e):
    s = e.sort()
    if s == z3.IntSort():
        return 'int'
    if s == z3.BoolSort():
        return 'bool'
    if s == z3.StringSort():
        return 'str'
    if s == Val:
        return 'val'
    if isinstance(s, z3.BitVecSortRef):
        return 'bv'
    return 'other'


def lift(x):
    """Python constant or Sym -> z3 expression (native sort)."""
    if isinstance(x, Sym):
        return x.e
    if isinstance(x, bool):
        return z3.BoolVal(x)
    if isinstance(x, int):
        return z3.IntVal(x)
    if isinstance(x, str):
        return z3.StringVal(x)
    raise Unsupported("cannot lift %r" % (type(x),))


def to_val(x):
    """anything scalar -> z3 expr of sort Val"""
    if isinstance(x, Sym):
        k = x.kind
        if k == 'val':
            return x.e
        if k == 'int':
            return Val.VI(x.e)
        if k == 'str':
            return Val.VS(x.e)
        if k == 'bool':
            return Val.VI(z3.If(x.e, 1, 0))
        raise Unsupported("to_val of %s" % k)
    if x is None:
        return Val.VNone
    if isinstance(x, bool):
        return Val.VI(z3.IntVal(int(x)))
    if isinstance(x, int):
        return Val.VI(z3.IntVal(x))
    if isinstance(x, str):
        return Val.VS(z3.StringVal(x))
    raise Unsupported("to_val of %r" % (type(x),))


def wrap(e):
    """z3 expr -> Sym or concrete python value when e is a literal."""
    e = z3.simplify(e)
    if z3.is_int_value(e):
        return e.as_long()
    if z3.is_true(e):
        return True
    if z3.is_false(e):
        return False
    if z3.is_string_value(e):
        return e.as_string()
    if e.sort() == Val:
        if z3.is_app(e) and e.decl().eq(Val.VI) and z3.is_int_value(e.arg(0)):
            return e.arg(0).as_long()
        if z3.is_app(e) and e.decl().eq(Val.VS) and z3.is_string_value(e.arg(0)):
            return e.arg(0).as_string()
        if z3.is_app(e) and e.decl().eq(Val.VNone):
            return None
    return Sym(e)


def ite(c, a, b):
    """generic conditional usable by oracles on Sym and on concrete values"""
    if isinstance(c, Sym):
        if c.kind != 'bool':
            c = truth(c)
        if not isinstance(c, Sym):
            return a if c else b
        ea, eb = _unify(a, b)
        return wrap(z3.If(c.e, ea, eb))
    return a if c else b


def _unify(a, b):
    ka = a.kind if isinstance(a, Sym) else type(a).__name__
    kb = b.kind if isinstance(b, Sym) else type(b).__name__
    if ka == kb or {ka, kb} <= {'int', 'bool'}:
        ea, eb = lift(a), lift(b)
        if ea.sort() != eb.sort():
            ea = _as_int_expr(a)
            eb = _as_int_expr(b)
        return ea, eb
    return to_val(a), to_val(b)


def _as_int_expr(x):
    if isinstance(x, Sym):
        if x.kind == 'int':
            return x.e
        if x.kind == 'bool':
            return z3.If(x.e, 1, 0)
        raise Unsupported("int expected, got %s" % x.kind)
    if isinstance(x, (bool, int)):
        return z3.IntVal(int(x))
    raise Unsupported("int expected, got %r" % (x,))


def truth(x):
    """Python truthiness as Sym-bool or python bool."""
    if isinstance(x, Sym):
        k = x.kind
        if k == 'bool':
            return x
        if k == 'int':
            return wrap(x.e != 0)
        if k == 'str':
            return wrap(z3.Length(x.e) > 0)
        if k == 'val':
            e = x.e
            return wrap(z3.If(Val.is_VI(e), Val.iv(e) != 0,
                              z3.If(Val.is_VS(e), z3.Length(Val.sv(e)) > 0, False)))
        raise Unsupported("truth of %s" % k)
    return bool(x)


def sand(*xs):
    es = []
    for x in xs:
        x = truth(x)
        if isinstance(x, Sym):
            es.append(x.e)
        elif not x:
            return False
    if not es:
        return True
    return wrap(z3.And(*es))


def sor(*xs):
    es = []
    for x in xs:
        x = truth(x)
        if isinstance(x, Sym):
            es.append(x.e)
        elif x:
            return True
    if not es:
        return False
    return wrap(z3.Or(*es))


def snot(x):
    x = truth(x)
    if isinstance(x, Sym):
        return wrap(z3.Not(x.e))
    return not x


def implies(a, b):
    return sor(snot(a), b)


def sym_eq(a, b):
    """Python == on scalars (symbolic aware); returns Sym-bool or bool."""
    if not isinstance(a, Sym) and not isinstance(b, Sym):
        return a == b
    if not isinstance(a, Sym):
        a, b = b, a
    # a is Sym
    ka = a.kind
    if isinstance(b, Sym):
        kb = b.kind
        if ka == kb:
            return wrap(a.e == b.e)
        if {ka, kb} <= {'int', 'bool'}:
            return wrap(_as_int_expr(a) == _as_int_expr(b))
        if 'val' in (ka, kb):
            return wrap(to_val(a) == to_val(b))
        return False          # int vs str
    # b concrete
    if b is None:
        if ka == 'val':
            return wrap(Val.is_VNone(a.e))
        return False
    if isinstance(b, (bool, int)):
        if ka in ('int', 'bool'):
            return wrap(_as_int_expr(a) == int(b))
        if ka == 'val':
            return wrap(z3.And(Val.is_VI(a.e), Val.iv(a.e) == int(b)))
        return False
    if isinstance(b, str):
        if ka == 'str':
            return wrap(a.e == z3.StringVal(b))
        if ka == 'val':
            return wrap(z3.And(Val.is_VS(a.e), Val.sv(a.e) == z3.StringVal(b)))
        return False
    if isinstance(b, float):
        raise Unsupported("Sym == float")
    return False


def as_int(x, what="operand"):
    """coerce a scalar to an int-valued Sym/int; raises TypeError (python
    semantics) on the path where a Val is not an int"""
    if isinstance(x, Sym):
        k = x.kind
        if k == 'int':
            return x
        if k == 'bool':
            return wrap(z3.If(x.e, 1, 0))
        if k == 'val':
            if cur().branch(Val.is_VI(x.e)):
                return wrap(Val.iv(x.e))
            raise TypeError("unsupported operand type (str/None) for %s" % what)
        raise TypeError("unsupported operand type %s for %s" % (k, what))
    if isinstance(x, (bool, int)):
        return int(x)
    if isinstance(x, FloatDiv):
        return x
    raise TypeError("unsupported operand type %r for %s" % (type(x).__name__, what))


def in_word_range(x):
    if isinstance(x, Sym):
        return cur().entails(z3.And(x.e >= 0, x.e < WORD))
    return 0 <= x < WORD


# Bitwise operators on words, Int rendering: uninterpreted functions plus ground instances of
# lemmas.  Every lemma below is proved for all 256-bit vectors in the pure bit-vector theory by the
# case `lemmas[bitwise]` (contracts/lemmas.py) -- band(a,b) *is* bv2int(int2bv(a) & int2bv(b)).
band = z3.Function('band', z3.IntSort(), z3.IntSort(), z3.IntSort())
bor = z3.Function('bor', z3.IntSort(), z3.IntSort(), z3.IntSort())
bxor = z3.Function('bxor', z3.IntSort(), z3.IntSort(), z3.IntSort())
MAXW = WORD - 1

# name -> (bv statement builder f(x, y) -> Bool, int instance builder g(a, b) -> Bool)
BIT_LEMMAS = {
    'and-zero': (lambda x, y: (x & 0) == 0, lambda a, b: z3.Implies(b == 0, band(a, b) == 0)),
    'and-idem': (lambda x, y: (x & x) == x, lambda a, b: z3.Implies(a == b, band(a, b) == a)),
    'and-ones': (lambda x, y: (x & ~z3.BitVecVal(0, 256)) == x, lambda a, b: z3.Implies(b == MAXW, band(a, b) == a)),
    'and-comm': (lambda x, y: (x & y) == (y & x), lambda a, b: band(a, b) == band(b, a)),
    'and-le': (lambda x, y: z3.And(z3.ULE(x & y, x), z3.ULE(x & y, y)),
               lambda a, b: z3.And(band(a, b) >= 0, band(a, b) <= a, band(a, b) <= b)),
    'or-zero': (lambda x, y: (x | 0) == x, lambda a, b: z3.Implies(b == 0, bor(a, b) == a)),
    'or-idem': (lambda x, y: (x | x) == x, lambda a, b: z3.Implies(a == b, bor(a, b) == a)),
    'or-ones': (lambda x, y: (x | ~z3.BitVecVal(0, 256)) == ~z3.BitVecVal(0, 256),
                lambda a, b: z3.Implies(b == MAXW, bor(a, b) == MAXW)),
    'or-comm': (lambda x, y: (x | y) == (y | x), lambda a, b: bor(a, b) == bor(b, a)),
    'or-ge': (lambda x, y: z3.And(z3.UGE(x | y, x), z3.UGE(x | y, y)),
              lambda a, b: z3.And(bor(a, b) >= a, bor(a, b) >= b, bor(a, b) <= MAXW)),
    'xor-self': (lambda x, y: (x ^ x) == 0, lambda a, b: z3.Implies(a == b, bxor(a, b) == 0)),
    'xor-zero': (lambda x, y: (x ^ 0) == x, lambda a, b: z3.Implies(b == 0, bxor(a, b) == a)),
    'xor-ones': (lambda x, y: (x ^ ~z3.BitVecVal(0, 256)) == ~x, lambda a, b: z3.Implies(b == MAXW, bxor(a, b) == MAXW - a)),
    'xor-comm': (lambda x, y: (x ^ y) == (y ^ x), lambda a, b: bxor(a, b) == bxor(b, a)),
    'xor-range': (lambda x, y: z3.BoolVal(True), lambda a, b: z3.And(bxor(a, b) >= 0, bxor(a, b) <= MAXW)),
    'xor-eq0': (lambda x, y: ((x ^ y) == 0) == (x == y), lambda a, b: (bxor(a, b) == 0) == (a == b)),
}


def bit_term(op, ea, eb, axiom=None):
    """band/bor/bxor term over Int exprs with the ground lemma instances for (ea, eb) and (eb, ea)"""
    f = {'&': band, '|': bor, '^': bxor}[op]
    pre = {'&': 'and-', '|': 'or-', '^': 'xor-'}[op]
    if axiom is None:
        axiom = cur().axiom
    for nm, (_, inst) in BIT_LEMMAS.items():
        if nm.startswith(pre):
            axiom(inst(ea, eb))
            axiom(inst(eb, ea))
    return f(ea, eb)


def _bitop(op, a, b):
    a = as_int(a, op)
    b = as_int(b, op)
    if not isinstance(a, Sym) and not isinstance(b, Sym):
        return {'&': a & b, '|': a | b, '^': a ^ b}[op]
    if in_word_range(a) and in_word_range(b):
        return wrap(bit_term(op, _as_int_expr(a), _as_int_expr(b)))
    cur().note("havoc: bit operation %s on ints not proved to be 256-bit words" % op)
    return cur().fresh_int('bitop')


def pw_term(ea, eb, axiom=None):
    """pw(a, b) = a ** b (mathematical) with ground facts"""
    if axiom is None:
        axiom = cur().axiom
    t = pw(ea, eb)
    axiom(z3.Implies(eb == 0, t == 1))
    axiom(z3.Implies(eb == 1, t == ea))
    axiom(z3.Implies(ea == 1, t == 1))
    axiom(z3.Implies(z3.And(ea == 0, eb > 0), t == 0))
    axiom(z3.Implies(ea >= 0, t >= 0))
    axiom(z3.Implies(eb == 2, t == ea * ea))
    return t


def pow2_term(e):
    """pow2(e) with its ground axioms added to the path"""
    c = cur()
    t = pow2(e)
    c.axiom(z3.Implies(e >= 0, t >= 1))
    c.axiom(z3.Implies(z3.And(e >= 0, e < 256), t < WORD))
    c.axiom(z3.Implies(e >= 256, z3.And(t % WORD == 0, t >= WORD)))
    c.axiom(z3.Implies(e == 0, t == 1))
    c.axiom(z3.Implies(e == 1, t == 2))
    c.axiom(z3.Implies(e == 8, t == 256))
    c.axiom(z3.Implies(e == 255, t == 2 ** 255))
    c.axiom(z3.Implies(e == 256, t == WORD))
    return t


def sym_pow(a, b, m=None):
    a = as_int(a, '**')
    b = as_int(b, '**')
    if not isinstance(a, Sym) and not isinstance(b, Sym):
        c = cur()
        c.resource_pow(a, b, m)
        return pow(a, b, m) if m is not None else a ** b
    c = cur()
    eb = _as_int_expr(b)
    if c.branch(eb < 0):
        raise Unsupported("negative exponent")
    c.resource_pow(a, b, m)
    if not isinstance(a, Sym) and a == 2:
        t = pow2_term(eb)
    else:
        ea = _as_int_expr(a)
        t = pw_term(ea, eb)
    if m is not None:
        return sym_mod(wrap(t), m)
    return wrap(t)


def sym_floordiv(a, b):
    a = as_int(a, '//')
    b = as_int(b, '//')
    if not isinstance(a, Sym) and not isinstance(b, Sym):
        return a // b
    c = cur()
    ea, eb = _as_int_expr(a), _as_int_expr(b)
    if c.branch(eb == 0):
        raise ZeroDivisionError("integer division or modulo by zero")
    if c.entails(eb > 0):
        return wrap(ea / eb)
    return wrap(z3.If(eb > 0, ea / eb, (-ea) / (-eb)))


def sym_mod(a, b):
    a = as_int(a, '%')
    b = as_int(b, '%')
    if not isinstance(a, Sym) and not isinstance(b, Sym):
        return a % b
    c = cur()
    ea, eb = _as_int_expr(a), _as_int_expr(b)
    if c.branch(eb == 0):
        raise ZeroDivisionError("integer division or modulo by zero")
    if c.entails(eb > 0):
        return wrap(ea % eb)
    return wrap(z3.If(eb > 0, ea % eb, -((-ea) % (-eb))))


class FloatDiv(object):
    """result of int / int (a Python float); only floor()/int() are modelled"""

    def __init__(self, a, b):
        self.a, self.b = a, b

    def floor(self):
        a, b = self.a, self.b
        if not isinstance(a, Sym) and not isinstance(b, Sym):
            import math
            return math.floor(a / b)
        c = cur()
        ea, eb = _as_int_expr(a), _as_int_expr(b)
        c.note("float division int/int followed by floor: exact only below 2^53")
        t = fdiv_floor(ea, eb)
        lim = 2 ** 53
        c.axiom(z3.Implies(z3.And(ea >= 0, ea < lim, eb > 0, eb < lim), t == ea / eb))
        return wrap(t)


def sym_truediv(a, b):
    a = as_int(a, '/')
    b = as_int(b, '/')
    if not isinstance(a, Sym) and not isinstance(b, Sym):
        if b == 0:
            raise ZeroDivisionError("division by zero")
        return FloatDiv(a, b)
    c = cur()
    if c.branch(_as_int_expr(b) == 0):
        raise ZeroDivisionError("division by zero")
    return FloatDiv(a, b)


def _rshift(a, b):
    """a >> b = floor(a / 2^b); unlike 2 ** b this allocates nothing proportional to b (no resource obligation)"""
    a = as_int(a, '>>')
    b = as_int(b, '>>')
    if not isinstance(a, Sym) and not isinstance(b, Sym):
        return a >> b
    eb = _as_int_expr(b)
    if cur().branch(eb < 0):
        raise ValueError("negative shift count")
    return sym_floordiv(a, wrap(pow2_term(eb)))


class Sym(object):
    __slots__ = ('e',)

    def __init__(self, e):
        self.e = e

    @property
    def kind(self):
        return kind(self.e)

    def __repr__(self):
        return "Sym(%s)" % (self.e,)

    def __deepcopy__(self, memo):
        return self

    def __copy__(self):
        return self

    def __hash__(self):
        raise Unsupported("hash of a symbolic value (dict key / set member)")

    def __bool__(self):
        t = truth(self)
        if isinstance(t, Sym):
            return cur().branch(t.e)
        return t

    # equality / order
    def __eq__(self, o):
        return sym_eq(self, o)

    def __ne__(self, o):
        return snot(sym_eq(self, o))

    def _cmp(self, o, f, name):
        if self.kind == 'str' or isinstance(o, str) or (isinstance(o, Sym) and o.kind == 'str'):
            raise Unsupported("order comparison on strings")
        a = as_int(self, name)
        b = as_int(o, name)
        return wrap(f(_as_int_expr(a), _as_int_expr(b)))

    def __lt__(self, o):
        return self._cmp(o, lambda a, b: a < b, '<')

    def __le__(self, o):
        return self._cmp(o, lambda a, b: a <= b, '<=')

    def __gt__(self, o):
        return self._cmp(o, lambda a, b: a > b, '>')

    def __ge__(self, o):
        return self._cmp(o, lambda a, b: a >= b, '>=')

    # arithmetic
    def _arith(self, o, f, name, refl=False):
        if self.kind == 'str' and name == '+':
            if refl:
                return wrap(z3.Concat(lift(o), self.e))
            return wrap(z3.Concat(self.e, lift(o)))
        a = as_int(self, name)
        b = as_int(o, name)
        if isinstance(b, FloatDiv) or isinstance(a, FloatDiv):
            raise Unsupported("float arithmetic")
        ea, eb = _as_int_expr(a), _as_int_expr(b)
        return wrap(f(eb, ea) if refl else f(ea, eb))

    def __add__(self, o):
        return self._arith(o, lambda a, b: a + b, '+')

    def __radd__(self, o):
        return self._arith(o, lambda a, b: a + b, '+', True)

    def __sub__(self, o):
        return self._arith(o, lambda a, b: a - b, '-')

    def __rsub__(self, o):
        return self._arith(o, lambda a, b: a - b, '-', True)

    def __mul__(self, o):
        return self._arith(o, lambda a, b: a * b, '*')

    def __rmul__(self, o):
        return self._arith(o, lambda a, b: a * b, '*', True)

    def __neg__(self):
        return wrap(-_as_int_expr(as_int(self, 'neg')))

    def __pos__(self):
        return as_int(self, 'pos')

    def __abs__(self):
        e = _as_int_expr(as_int(self, 'abs'))
        return wrap(z3.If(e >= 0, e, -e))

    def __invert__(self):
        return wrap(-_as_int_expr(as_int(self, '~')) - 1)

    def __floordiv__(self, o):
        return sym_floordiv(self, o)

    def __rfloordiv__(self, o):
        return sym_floordiv(o, self)

    def __mod__(self, o):
        if self.kind == 'str':
            raise Unsupported("str % formatting on symbolic string")
        return sym_mod(self, o)

    def __rmod__(self, o):
        if isinstance(o, str):
            raise Unsupported("str % formatting with symbolic argument")
        return sym_mod(o, self)

    def __truediv__(self, o):
        return sym_truediv(self, o)

    def __rtruediv__(self, o):
        return sym_truediv(o, self)

    def __pow__(self, o, m=None):
        return sym_pow(self, o, m)

    def __rpow__(self, o):
        return sym_pow(o, self)

    def __and__(self, o):
        if self.kind == 'bool' and (isinstance(o, bool) or (isinstance(o, Sym) and o.kind == 'bool')):
            return sand(self, o)
        return _bitop('&', self, o)

    __rand__ = __and__

    def __or__(self, o):
        if self.kind == 'bool' and (isinstance(o, bool) or (isinstance(o, Sym) and o.kind == 'bool')):
            return sor(self, o)
        return _bitop('|', self, o)

    __ror__ = __or__

    def __xor__(self, o):
        return _bitop('^', self, o)

    __rxor__ = __xor__

    def __lshift__(self, o):
        return self * sym_pow(2, o)

    def __rlshift__(self, o):
        return o * sym_pow(2, self)

    def __rshift__(self, o):
        return _rshift(self, o)

    def __rrshift__(self, o):
        return _rshift(o, self)

    def __index__(self):
        raise Unsupported("symbolic value used as an index/size")

    def __int__(self):
        raise Unsupported("native int() of symbolic value")

    def __len__(self):
        raise Unsupported("native len() of symbolic value")

    def __iter__(self):
        raise Unsupported("iteration over a symbolic scalar")
