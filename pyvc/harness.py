"""Contracts as executable harnesses.

A *case* is one function-under-contract together with its precondition (how the
symbolic arguments are built), the contracts (stubs) of its callees and its
postconditions.  `case.run(H)` is written once and executed in two modes:

  symbolic  (SymH)  : arguments are Sym, the function body is the real AST
                      interpreted by pyvc, every `H.check` is a proof obligation
                      discharged by z3 under the path condition;
  concrete  (ConH)  : arguments come from a solver model (or a seed list), the
                      *real function object* is called natively and `H.check`
                      evaluates the same clause on concrete values (replay).
"""
import re
import multiprocessing
import os
import signal
import sys
import time
import traceback

import z3

from . import sym, explore, interp
from .sym import Sym, Unsupported


class Outcome(object):
    def __init__(self, value=None, exc=None):
        self.value = value
        self.exc = exc

    @property
    def ok(self):
        return self.exc is None

    def __repr__(self):
        return "Outcome(value=%r, exc=%r)" % (self.value, self.exc)


_ENGINE_NAMES = re.compile(r"'(Sym|SymList|Rope|SymRange|SymZip|SymSlice|AbstractSeq|OpaqueDict|SpecialMethod|SymMethod|ItemProxy|RecProxy|"
                           r"GhostBlocks|Frame|Interp)'")


class SymH(object):
    symbolic = True

    def __init__(self, path, stubs=None, drop=(), max_loop=300, loops=None):
        self.path = path
        self.it = interp.Interp(path, stubs or {}, drop=drop, max_loop=max_loop, loops=loops)

    # inputs
    def word(self, name):
        return self.path.input_word(name)

    def int(self, name, lo=None, hi=None):
        return self.path.input_int(name, lo, hi)

    def bool(self, name):
        return self.path.input_bool(name)

    def str(self, name):
        return self.path.input_str(name)

    def val(self, name):
        return self.path.input_val(name)

    def choice(self, name, options):
        return self.path.choice(name, options)

    def assume(self, c):
        if isinstance(c, Sym):
            c = sym.truth(c)
        self.path.assume(c)

    def call(self, fn, *args, **kwargs):
        """run the function under contract: its *body* is interpreted (callee stubs apply to calls made inside)"""
        try:
            return Outcome(self.it.call(fn, args, kwargs, body=True))
        except (sym.EngineError, interp._Flow):
            raise
        except BaseException as e:
            if isinstance(e, (TypeError, AttributeError)) and _ENGINE_NAMES.search(str(e)):
                # Python complaining about one of the engine's own value classes: an unsupported operation of the
                # interpreter, not an exception of the program under analysis
                raise sym.Unsupported("engine value in a native operation: %s" % e)
            return Outcome(exc=e)

    def check(self, clause, claim, alts=(), info=None):
        if isinstance(claim, Sym):
            claim = sym.truth(claim)
        return self.path.prove(clause, claim, alts=alts, info=info)

    def set_global(self, module, name, v):
        self.it.set_global(module, name, v)

    def get_global(self, module, name):
        return self.it.get_global(module, name)

    def hex_of(self, x):
        return interp.hex_of(self.path, x)

    def note(self, msg):
        self.path.note(msg)


class ConH(object):
    symbolic = False

    def __init__(self, inputs):
        self.inputs = dict(inputs)
        self.failed = []
        self.checked = []
        self.assume_failed = False
        self.log = []

    def _get(self, name, default):
        v = self.inputs.get(name, default)
        self.log.append((name, v))
        return v

    def word(self, name):
        return self._get(name, 0)

    def int(self, name, lo=None, hi=None):
        v = self._get(name, lo if lo is not None else 0)
        if (lo is not None and v < lo) or (hi is not None and v > hi):
            self.assume_failed = True
        return v

    def bool(self, name):
        return self._get(name, False)

    def str(self, name):
        return self._get(name, "")

    def val(self, name):
        return self._get(name, None)

    def choice(self, name, options):
        options = list(options)
        if len(options) == 1:
            return options[0]
        i = self._get(name, 0)
        return options[max(0, min(i, len(options) - 1))]

    def assume(self, c):
        if not c:
            self.assume_failed = True

    def call(self, fn, *args, **kwargs):
        try:
            return Outcome(fn(*args, **kwargs))
        except BaseException as e:
            if isinstance(e, KeyboardInterrupt):
                raise
            return Outcome(exc=e)          # SystemExit included: exit() in the code under contract is an outcome, as in the symbolic run

    def check(self, clause, claim, alts=(), info=None):
        ok = bool(claim)
        self.checked.append(clause)
        if not ok:
            self.failed.append(clause)
        return ok

    def set_global(self, module, name, v):
        setattr(module, name, v)

    def get_global(self, module, name):
        return getattr(module, name)

    def hex_of(self, x):
        return hex(x)[2:]

    def note(self, msg):
        pass


class Case(object):
    """base class of a function-under-contract case"""
    prop = '?'
    name = '?'
    tier = 'P'
    functions = ()        # real function objects under contract (evidence)
    stubs = {}
    drop = ()
    timeout_ms = 10000
    max_paths = 4000
    max_steps = 400
    max_loop = 300
    check_resources = False
    assumptions = ()
    seeds = ()            # concrete input dicts always replayed natively (boundary seeding)

    def run(self, H):
        raise NotImplementedError

    def make_stubs(self):
        return dict(self.stubs)


class NativeIt(object):
    """what a callee contract (stub) sees when the case is replayed natively"""

    def __init__(self, H):
        self.H = H
        self.trace = []
        self.asm_obj = None
        self.cfg = None
        self.path = self

    def get_global(self, module, name):
        return getattr(module, name)

    def set_global(self, module, name, v):
        self.H.set_global(module, name, v)

    # stubs state callee preconditions with it.path.prove(name, claim)
    def prove(self, name, claim, alts=(), info=None):
        return self.H.check(name, claim)

    def note(self, msg):
        pass


def _resolve(qual):
    """qualified name -> (owner object, attribute name, current value)"""
    import importlib
    parts = qual.split('.')
    for i in range(len(parts) - 1, 0, -1):
        try:
            mod = importlib.import_module('.'.join(parts[:i]))
        except ImportError:
            continue
        owner = mod
        try:
            for p_ in parts[i:-1]:
                owner = getattr(owner, p_)
            cur = interp._static_lookup(owner, parts[-1]) if isinstance(owner, type) else getattr(owner, parts[-1])
        except AttributeError:
            return None
        return owner, parts[-1], cur
    return None


def native_patches(case, it):
    """install the callee contracts of the case as native monkey patches; returns an undo list"""
    undo = []

    def patch(owner, name, new):
        had = name in vars(owner) if hasattr(owner, '__dict__') else True
        old = vars(owner).get(name, _MISSING) if hasattr(owner, '__dict__') else getattr(owner, name)
        setattr(owner, name, new)
        undo.append((owner, name, old if had else _MISSING))

    for qual, st in (case.make_stubs().items() if getattr(case, 'native_stubs', True) else ()):
        if qual == '_io.open':
            def wrapper(*a, _st=st, **k):
                return _st(it, *a, **k)
            for f in case.functions:
                g = getattr(f, '__globals__', None)
                if g is not None:
                    mod = sys.modules.get(g.get('__name__'))
                    if mod is not None:
                        patch(mod, 'open', wrapper)
            continue
        res = _resolve(qual)
        if res is None:
            continue
        owner, name, cur = res
        if isinstance(cur, property):
            new = property(lambda self, _st=st: _st(it, self))
        elif isinstance(owner, type):
            def new(self, *a, _st=st, **k):
                return _st(it, self, *a, **k)
        else:
            def new(*a, _st=st, **k):
                return _st(it, *a, **k)
        patch(owner, name, new)
        # names imported with `from m import f` into other repo modules
        if not isinstance(owner, type) and isinstance(cur, (type(_resolve), type)):
            for m in list(sys.modules.values()):
                f_ = getattr(m, '__file__', None) or ''
                if m is owner or not f_.startswith(interp.REPO_ROOT + os.sep):
                    continue
                for k_, v_ in list(vars(m).items()):
                    if v_ is cur:
                        patch(m, k_, new)
    return undo


def _replay_one(case, inputs):
    H = ConH(inputs)
    H.it = NativeIt(H)
    err = None
    undo = native_patches(case, H.it)
    try:
        case.run(H)
    except BaseException as e:
        if isinstance(e, KeyboardInterrupt):
            raise
        err = "%s: %s" % (type(e).__name__, e)
    finally:
        for owner, name, old in reversed(undo):
            try:
                if old is _MISSING:
                    delattr(owner, name)
                else:
                    setattr(owner, name, old)
            except Exception:
                pass
    return dict(failed=H.failed, checked=H.checked, assume_failed=H.assume_failed, error=err)


def _replay_worker(case, inputs_list, q):
    sys.setrecursionlimit(10000)
    for i, inputs in enumerate(inputs_list):
        try:
            q.put((i, _replay_one(case, inputs)))
        except BaseException as e:
            q.put((i, dict(failed=[], checked=[], assume_failed=False, error="replay crashed: %r" % (e,))))
    q.put((-1, None))


class _Timeout(BaseException):
    pass


def _alarm(signum, frame):
    raise _Timeout()


def replay_inproc(case, inputs_list, timeout=20):
    """native replays inside this process (no fork), each guarded by SIGALRM; module globals set through
    ConH.set_global are restored afterwards"""
    results = []
    devnull = open(os.devnull, 'w')
    old_out, old_err = sys.stdout, sys.stderr
    old_handler = signal.signal(signal.SIGALRM, _alarm)
    sym.set_cur(None)
    try:
        sys.stdout = sys.stderr = devnull
        timeouts = 0
        for inputs in inputs_list:
            if timeouts >= MAX_REPLAY_TIMEOUTS:
                results.append(dict(failed=[], checked=[], assume_failed=False, timeout=True, skipped=True,
                                    error="not run: %d earlier inputs of this case timed out after %ds" % (timeouts, timeout)))
                continue
            saved = []
            orig_set = ConH.set_global

            def tracking_set(self, module, name, v, _saved=saved):
                _saved.append((module, name, getattr(module, name, _MISSING)))
                setattr(module, name, v)
            ConH.set_global = tracking_set
            signal.alarm(timeout)
            try:
                r = _replay_one(case, inputs)
            except _Timeout:
                r = dict(failed=[], checked=[], assume_failed=False, error="timeout after %ds" % timeout, timeout=True)
                timeouts += 1
            finally:
                signal.alarm(0)
                ConH.set_global = orig_set
                for module, name, v in reversed(saved):
                    if v is _MISSING:
                        try:
                            delattr(module, name)
                        except AttributeError:
                            pass
                    else:
                        setattr(module, name, v)
            results.append(r)
    finally:
        sys.stdout, sys.stderr = old_out, old_err
        signal.signal(signal.SIGALRM, old_handler)
        devnull.close()
    return results


_MISSING = object()


def replay_many(case, inputs_list, timeout=30):
    if not inputs_list:
        return []
    if not getattr(case, 'replay_in_child', False) and not case.check_resources:
        return replay_inproc(case, inputs_list, timeout)
    return replay_forked(case, inputs_list, timeout)


MAX_REPLAY_TIMEOUTS = 3


def replay_forked(case, inputs_list, timeout=30):
    """run the case natively on each concrete input dict in one forked child (per-item timeout);
    a hanging item is killed and reported as timeout, the rest continues in a fresh child"""
    results = [None] * len(inputs_list)
    start = 0
    ctx = multiprocessing.get_context('fork')
    timeouts = 0
    while start < len(inputs_list):
        if timeouts >= MAX_REPLAY_TIMEOUTS:
            # the function hangs on input after input: the remaining ones are not tried (hours otherwise); they are reported as
            # timeouts too, which is what they would most likely be, and never as passes
            for k in range(start, len(inputs_list)):
                results[k] = dict(failed=[], checked=[], assume_failed=False, timeout=True, skipped=True,
                                  error="not run: %d earlier inputs of this case timed out after %ds" % (timeouts, timeout))
            break
        q = ctx.Queue()
        p = ctx.Process(target=_quiet, args=(_replay_worker, case, inputs_list[start:], q))
        p.daemon = False
        p.start()
        done = start
        try:
            while True:
                try:
                    i, r = q.get(timeout=timeout)
                except Exception:
                    results[done] = dict(failed=[], checked=[], assume_failed=False,
                                         error="timeout after %ds" % timeout, timeout=True)
                    done += 1
                    timeouts += 1
                    break
                if i == -1:
                    done = len(inputs_list)
                    break
                results[start + i] = r
                done = start + i + 1
        finally:
            p.join(0.5)
            if p.is_alive():
                p.kill()
                p.join()
        start = done
    return results


def replay(case, inputs, timeout=30):
    return replay_many(case, [inputs], timeout)[0]


def _quiet(f, *a):
    try:
        dn = os.open(os.devnull, os.O_WRONLY)
        os.dup2(dn, 1)
        os.dup2(dn, 2)
    except Exception:
        pass
    f(*a)


class NativeCase(Case):
    """bounded stand-in (tier B): the real code is run natively on an enumerated family of inputs and each result is
    judged by an oracle; obligations are recorded with self.ob(...)"""
    tier = 'B'
    native_only = True

    def run_native(self, tier):
        raise NotImplementedError

    def ob(self, name, ok, inputs=None, info=None):
        o = self._obs.get(name)
        if o is None:
            o = self._obs[name] = dict(name=self.name + '::' + name, paths=0, proved=0, refuted=[], unknown=[], solver_s=0.0,
                                       backends={}, sample=None)
        o['paths'] += 1
        if ok:
            o['proved'] += 1
            o['backends']['native-oracle'] = o['backends'].get('native-oracle', 0) + 1
            if o['sample'] is None and inputs is not None:
                o['sample'] = repr(inputs)[:600]
        elif len(o['refuted']) < 40:
            o['refuted'].append(dict(inputs=inputs, info=info, confirmed=True, path=[], notes=[],
                                     replay=dict(failed=[name], checked=[name], assume_failed=False, error=None)))
        else:
            o['refuted_more'] = o.get('refuted_more', 0) + 1


def run_native_case(case, tier):
    t0 = time.time()
    case._obs = {}
    crash = None
    devnull = open(os.devnull, 'w')
    old_out, old_err = sys.stdout, sys.stderr
    try:
        sys.stdout = sys.stderr = devnull
        try:
            case.run_native(tier)
        finally:
            sys.stdout, sys.stderr = old_out, old_err
            devnull.close()
    except BaseException as e:
        crash = "".join(traceback.format_exception(type(e), e, e.__traceback__))[-3000:]
    obs = []
    evals = 0
    for o in case._obs.values():
        o['verdict'] = 'refuted' if o['refuted'] else ('proved' if o['paths'] else 'unknown')
        o['confirmed'] = len(o['refuted'])
        evals += o['paths']
        obs.append(o)
    fins = []
    for f in case.functions:
        try:
            fins.append(interp.source_info(f))
        except BaseException as e:
            fins.append(dict(qualname=getattr(f, '__qualname__', str(f)), error=str(e)))
    return dict(name=case.name, case=case.name, prop=case.prop, tier=case.tier, paths=evals, infeasible=0, errors=[], n_errors=0,
                notes=[], solver_s=0, queries=0, obligations=obs, crash=crash, assumptions=list(case.assumptions), stand_in=getattr(case, 'stand_in', None),
                functions=fins, seed_failures=[], seeds_run=0, cover_runs=0, cover_failures=[],
                wall_s=round(time.time() - t0, 3))


def _model_inputs(path, m):
    d = dict((n, explore.model_value(m, e)) for n, e in path.inputs.items())
    for n, fn in path.extractors.items():
        try:
            d[n] = fn(m)
        except Exception as e:      # noqa
            d[n] = "extractor failed: %r" % (e,)
    return d


def run_case(case, tier='quick'):
    """explore one case symbolically, replay refutations natively; returns a json-able dict"""
    if getattr(case, 'native_only', False):
        return run_native_case(case, tier)
    t0 = time.time()
    stubs = case.make_stubs()

    covers = []
    ncover = 10 ** 9 if tier == 'thorough' else 3

    def runner(path):
        H = SymH(path, stubs, drop=case.drop, max_loop=case.max_loop, loops=getattr(case, 'loops', None))
        case.run(H)
        # cover: a model of the completed path = concrete inputs that reach it (vacuity guard + CPython differential)
        if len(covers) < ncover and path.inputs and getattr(case, 'native_cover', True):
            if path.quantified:
                # a model of a quantified path condition is rarely found: short budget, no model = no cover for this path
                path.solver.set('timeout', 2000)
            r = path.solver.check()
            if r == z3.sat:
                m = path.solver.model()
                covers.append(_model_inputs(path, m))
            elif r != z3.unsat and path.quantified:
                # fall back on the quantifier-free part: the native run re-checks the precondition itself (assume)
                if path.ground.check() == z3.sat:
                    m = path.ground.model()
                    covers.append(_model_inputs(path, m))

    tmo = case.timeout_ms * (6 if tier == 'thorough' else 1)
    ex = explore.Explorer(case.name, runner, timeout_ms=tmo, max_paths=case.max_paths,
                          max_steps=case.max_steps, check_resources=case.check_resources,
                          budget_s=(getattr(case, 'budget_s', None) or 0) * (8 if tier == 'thorough' else 1) or None)
    crash = None
    try:
        ex.explore()
    except BaseException as e:
        crash = "".join(traceback.format_exception(type(e), e, e.__traceback__))[-3000:]
    out = ex.summary()
    out['case'] = case.name
    out['prop'] = case.prop
    out['tier'] = case.tier
    out['crash'] = crash
    out['assumptions'] = list(case.assumptions)
    out['stand_in'] = getattr(case, 'stand_in', None)
    fins = []
    for f in case.functions:
        try:
            fins.append(interp.source_info(f))
        except BaseException as e:
            fins.append(dict(qualname=getattr(f, '__qualname__', str(f)), error=str(e)))
    out['functions'] = fins
    # replay refutations
    for ob in out['obligations']:
        clause = ob['name'].split('::', 1)[1]
        confirmed = []
        for rec in ob['refuted']:
            r = replay(case, rec['inputs'])
            rec['replay'] = r
            rec['confirmed'] = (clause in r['failed']) or bool(r.get('timeout') and clause.startswith('resource'))
            if '#loop' in clause and ':invariant-' in clause and r['failed'] and not r.get('assume_failed'):
                # a loop annotation is not a clause of the native run: its counter-model is confirmed when the real function
                # breaks one of the postconditions on it
                rec['confirmed'] = True
            if rec['confirmed']:
                confirmed.append(rec)
        ob['confirmed'] = len(confirmed)
    # differential: natively replay one model per covered path; a clause the engine proved must hold natively
    cover_fail = []
    proved = set(ob['name'].split('::', 1)[1] for ob in out['obligations'] if ob['verdict'] == 'proved')
    for c, r in zip(covers, replay_many(case, covers, timeout=20)):
        bad = [cl for cl in r['failed'] if cl in proved]
        if bad or (r.get('error') and not r['assume_failed'] and not r.get('timeout')):
            cover_fail.append(dict(inputs=c, failed=bad, error=r.get('error')))
    out['cover_runs'] = len(covers)
    out['cover_failures'] = cover_fail
    # boundary seeds (native only)
    seed_fail = []
    seeds = list(case.seeds)
    for s, r in zip(seeds, replay_many(case, seeds, timeout=20)):
        if r['failed'] or (r.get('error') and not r['assume_failed']):
            seed_fail.append(dict(inputs=s, replay=r))
    out['seed_failures'] = seed_fail
    out['seeds_run'] = len(case.seeds)
    out['wall_s'] = round(time.time() - t0, 3)
    return out
