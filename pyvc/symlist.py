"""Lists of symbolic length (z3 array + length) and loop contracts (inductive invariants).

SymList models a Python list whose length is a symbolic non-negative integer.  Elements are z3 values of one sort; a
codec turns them into interpreter values (Sym scalars, or proxies of an uninterpreted item sort).  The object is mutable in
place (append / pop / item assignment), like the list it stands for, so aliasing through several names is faithful.

LoopSpec is the contract of one loop: which locals it modifies (they are havocked), and the invariant.  The interpreter
proves the invariant on entry, assumes it at an arbitrary iteration, executes the body once, proves it again (inductive step)
and ends that path; the exit path continues after the loop from the invariant and the negated loop condition.
"""
import os
import sys
import z3

from . import sym
from .sym import Sym, Val, Unsupported, EngineError


class PathEnd(EngineError):
    """the current path is complete (inductive step of a loop discharged)"""


class ValCodec(object):
    sort = Val

    def to_z3(self, x):
        return sym.to_val(x)

    def from_z3(self, e):
        return sym.wrap(e)


class IntCodec(object):
    sort = z3.IntSort()

    def to_z3(self, x):
        return sym._as_int_expr(x)

    def from_z3(self, e):
        return sym.wrap(e)


class StrCodec(object):
    sort = z3.StringSort()

    def to_z3(self, x):
        return sym.lift(x)

    def from_z3(self, e):
        return sym.wrap(e)


class SymList(object):
    _count = [0]

    def __init__(self, codec, arr=None, n=None, name='L'):
        self.codec = codec
        self.name = sym.cur()._name(name)
        self.arr = arr if arr is not None else z3.Array(sym.cur()._name('arr_' + name), z3.IntSort(), codec.sort)
        if n is None:
            n = z3.Int(sym.cur()._name('len_' + name))
            sym.cur().assume(n >= 0)
        self.n = n

    # -- helpers
    def length(self):
        return sym.wrap(self.n)

    def at(self, i_expr):
        return z3.Select(self.arr, i_expr)

    def clone(self):
        return SymList(self.codec, self.arr, self.n, 'copy')

    def __deepcopy__(self, memo):
        return self.clone()

    def __copy__(self):
        return self.clone()

    def copy(self):
        return self.clone()

    def __len__(self):
        raise Unsupported("native len() of a symbolic list")

    def __iter__(self):
        raise Unsupported("iteration over a symbolic list without a loop contract")

    def _index(self, i):
        """python index (possibly negative / symbolic) -> z3 position, with the IndexError edge"""
        p = sym.cur()
        ie = sym._as_int_expr(sym.as_int(i, 'index'))
        if p.branch(z3.And(ie >= 0, ie < self.n)):
            return ie
        if p.branch(z3.And(ie < 0, -ie <= self.n)):
            return self.n + ie
        raise IndexError("list index out of range")

    def __getitem__(self, i):
        if isinstance(i, slice) or type(i).__name__ == 'SymSlice':
            return self._slice(i.start, i.stop, i.step)
        return self.codec.from_z3(z3.simplify(self.at(self._index(i))))

    def __setitem__(self, i, v):
        pos = self._index(i)
        self.slice_of = None
        self.arr = z3.Store(self.arr, pos, self.codec.to_z3(v))

    def _bound(self, b, default):
        if b is None:
            return default
        be = sym._as_int_expr(sym.as_int(b, 'slice'))
        # python clamps slice bounds
        be = z3.If(be < 0, z3.If(self.n + be < 0, 0, self.n + be), z3.If(be > self.n, self.n, be))
        return be

    def _slice(self, lo, hi, step, rope=False):
        if step is not None:
            raise Unsupported("slice with step on a symbolic list")
        lo_e = self._bound(lo, z3.IntVal(0))
        hi_e = self._bound(hi, self.n)
        ln = z3.If(hi_e > lo_e, hi_e - lo_e, 0)
        if rope:
            return Rope(self.codec, [(self.arr, z3.simplify(lo_e), z3.simplify(ln))], 'slice')
        i = z3.Int('i!slice')
        arr = z3.Lambda([i], z3.Select(self.arr, i + lo_e))
        r = SymList(self.codec, arr, z3.simplify(ln), 'slice')
        r.slice_of = (self.arr, z3.simplify(lo_e), z3.simplify(ln))      # a rope that is extended by it keeps the slice as a segment
        return r

    def append(self, v):
        self.slice_of = None
        self.arr = z3.Store(self.arr, self.n, self.codec.to_z3(v))
        self.n = z3.simplify(self.n + 1)

    def pop(self, i=-1):
        p = sym.cur()
        self.slice_of = None
        if p.branch(self.n <= 0):
            raise IndexError("pop from empty list")
        if isinstance(i, int) and i == -1:
            v = self.codec.from_z3(z3.simplify(self.at(self.n - 1)))
            self.n = z3.simplify(self.n - 1)
            return v
        if isinstance(i, int) and i == 0:
            v = self.codec.from_z3(z3.simplify(self.at(z3.IntVal(0))))
            j = z3.Int('i!pop0')
            self.arr = z3.Lambda([j], z3.Select(self.arr, j + 1))
            self.n = z3.simplify(self.n - 1)
            return v
        raise Unsupported("pop at a general position of a symbolic list")

    def extend(self, other):
        other = as_symlist(other, self.codec)
        self.slice_of = None
        j = z3.Int('i!ext')
        self.arr = z3.Lambda([j], z3.If(j < self.n, z3.Select(self.arr, j), z3.Select(other.arr, j - self.n)))
        self.n = z3.simplify(self.n + other.n)

    def __add__(self, other):
        r = self.clone()
        r.extend(other)
        return r

    def __eq__(self, other):
        if isinstance(other, (list, tuple)):
            if not other:
                return sym.wrap(self.n == 0)
            other = as_symlist(other, self.codec)
        if not isinstance(other, SymList):
            return False
        i = z3.Int('i!eq')
        return sym.wrap(z3.And(self.n == other.n,
                               z3.ForAll([i], z3.Implies(z3.And(i >= 0, i < self.n), self.at(i) == other.at(i)))))

    def __ne__(self, other):
        return sym.snot(self.__eq__(other))

    __hash__ = None

    def _pyvc_contains(self, item):
        i = z3.Int('i!in')
        return sym.wrap(z3.Exists([i], z3.And(i >= 0, i < self.n, self.at(i) == self.codec.to_z3(item))))

    def same_as(self, other):
        """z3 formula: extensional equality with another SymList"""
        i = z3.Int('i!same')
        return z3.And(self.n == other.n, z3.ForAll([i], z3.Implies(z3.And(i >= 0, i < self.n), self.at(i) == other.at(i))))

    def forall(self, pred, upto=None, frm=None):
        """z3: forall i in [frm, upto): pred(i, element_i)"""
        i = z3.Int('i!all')
        lo = frm if frm is not None else z3.IntVal(0)
        hi = upto if upto is not None else self.n
        return z3.ForAll([i], z3.Implies(z3.And(i >= lo, i < hi), pred(i, self.at(i))))


class Rope(SymList):
    """A list of symbolic length represented as a concatenation of slices  arr_q[frm_q : frm_q + cnt_q]  of known arrays.

    Suited to code that builds a list by copying runs of items from other lists (append of an element of a list, extend by a
    list): every operation keeps the representation exact and quantifier-free, element access is an if-chain over the
    segments, and equality of two ropes is decided segment-wise after merging contiguous slices (linear arithmetic only)."""

    def __init__(self, codec, segs=(), name='rope'):
        self.codec = codec
        self.name = sym.cur()._name(name)
        self.segs = list(segs)

    @property
    def n(self):
        t = z3.IntVal(0)
        for _, _, c in self.segs:
            t = t + c
        return z3.simplify(t)

    @property
    def arr(self):
        i = z3.Int('i!rope')
        return z3.Lambda([i], self.at(i))

    def at(self, i_expr):
        base = z3.IntVal(0)
        bounds = []
        for a, f, c in self.segs:
            bounds.append((z3.simplify(base + c), z3.Select(a, z3.simplify(f + i_expr - base))))
            base = base + c
        if not bounds:
            return _default(self.codec.sort)
        e = bounds[-1][1]
        for hi, v in reversed(bounds[:-1]):
            e = z3.If(i_expr < hi, v, e)
        return e

    def clone(self):
        return Rope(self.codec, self.segs, 'copy')

    def __setitem__(self, i, v):
        raise Unsupported("item assignment on a rope")

    def pop(self, i=-1):
        raise Unsupported("pop on a rope")

    def append(self, v):
        e = self.codec.to_z3(v)
        if z3.is_select(e):
            self.segs.append((e.arg(0), e.arg(1), z3.IntVal(1)))
        else:
            self.segs.append((z3.K(z3.IntSort(), e), z3.IntVal(0), z3.IntVal(1)))

    def extend(self, other):
        if isinstance(other, Rope):
            self.segs.extend(other.segs)
        elif isinstance(other, SymList):
            sl = getattr(other, 'slice_of', None)
            self.segs.append(sl if sl is not None else (other.arr, z3.IntVal(0), other.n))
        elif isinstance(other, (list, tuple)):
            for v in other:
                self.append(v)
        else:
            raise Unsupported("extend of a rope by %r" % type(other).__name__)

    def _slice(self, lo, hi, step):
        return SymList(self.codec, self.arr, self.n, 'ropeflat')._slice(lo, hi, step)

    @staticmethod
    def normalise(segs):
        """drop provably empty segments and merge provably contiguous slices of the same array (entailment under the current path)"""
        p = sym.cur()
        out = []
        for a, f, c in segs:
            c = z3.simplify(c)
            if z3.is_app_of(c, z3.Z3_OP_ITE):
                # a count that depends on a condition the path has already decided
                if p.entails_quick(c.arg(0)):
                    c = z3.simplify(c.arg(1))
                elif p.entails_quick(z3.Not(c.arg(0))):
                    c = z3.simplify(c.arg(2))
            if p.entails_ground(c == 0):
                continue
            if out and out[-1][0].eq(a) and p.entails_ground(out[-1][1] + out[-1][2] == f):
                out[-1] = (a, out[-1][1], z3.simplify(out[-1][2] + c))
            else:
                out.append((a, z3.simplify(f), c))
        return out

    def equals(self, segs):
        """z3 formula: this rope denotes the same list as the concatenation of `segs`"""
        mine = Rope.normalise(self.segs)
        theirs = Rope.normalise(segs)
        if len(mine) == len(theirs) and all(x[0].eq(y[0]) for x, y in zip(mine, theirs)):
            return z3.And(*([z3.BoolVal(True)] + [z3.Or(z3.And(x[2] == 0, y[2] == 0), z3.And(x[1] == y[1], x[2] == y[2]))
                                                   for x, y in zip(mine, theirs)]))
        if os.environ.get('ROPE_DEBUG'):
            sys.stderr.write("ROPE misaligned:\n  mine   %s\n  theirs %s\n" % ([(str(a)[:40], str(f), str(c)) for a, f, c in mine],
                                                                            [(str(a)[:40], str(f), str(c)) for a, f, c in theirs]))
        # segment structures differ: extensional statement (the solver may or may not decide it)
        other = Rope(self.codec, segs, 'exp')
        return SymList.same_as(self, other)


def as_symlist(x, codec):
    if isinstance(x, SymList):
        return x
    if isinstance(x, (list, tuple)):
        arr = z3.K(z3.IntSort(), codec.to_z3(x[0])) if x else z3.K(z3.IntSort(), _default(codec.sort))
        for k, v in enumerate(x):
            arr = z3.Store(arr, k, codec.to_z3(v))
        return SymList(codec, arr, z3.IntVal(len(x)), 'lit')
    raise Unsupported("cannot turn %r into a symbolic list" % type(x).__name__)


def _default(sort):
    if sort == Val:
        return Val.VNone
    if sort == z3.IntSort():
        return z3.IntVal(0)
    if sort == z3.StringSort():
        return z3.StringVal("")
    return z3.FreshConst(sort)


class LoopSpec(object):
    """contract of one loop of a function under verification.

    modifies : names of the locals the loop body may assign (havocked at the arbitrary iteration)
    havoc(it, frame, k)  -> None : bind fresh values to the modified locals (k = ghost index, a Sym int; None for while)
    inv(it, frame, k)    -> z3 Bool / Sym / bool : the invariant over the current frame
    """
    modifies = ()

    def enter(self, it, fr):
        """called once when control reaches the loop: record ghost 'old' values of the frame if the invariant needs them"""
        pass

    def havoc(self, it, fr, k):
        raise NotImplementedError

    def inv(self, it, fr, k):
        raise NotImplementedError

    def exit_hints(self, it, fr):
        """ground instances of facts that are already assumed under a quantifier (precondition, invariant), returned as z3
        formulas; they are added to the path on loop exit to spare the solver the instantiation (sound: instances only)"""
        return ()
