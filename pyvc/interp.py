"""AST interpreter for the Python subset of /repo, over mixed concrete / symbolic values.

The interpreted text is the FunctionDef found in the *current* source file of the
function object (re-parsed on every run).  Calls to other functions defined under
the repo root are interpreted as well (inlined) unless a stub (= the callee's
contract) is registered for their qualified name.  Everything else is called
natively; natively called helpers only see Sym through overloaded operators.
"""
import ast
import builtins
import copy
import inspect
import math
import os
import types

import z3

from . import sym
from .sym import Sym, Val, Unsupported, EngineError, PathLimit
from .symlist import SymList, PathEnd, LoopSpec

REPO_ROOT = os.environ.get('GASOL_REPO', '/repo')


class _Flow(BaseException):
    pass


class _Return(_Flow):
    def __init__(self, v):
        self.v = v


class _Break(_Flow):
    pass


class _Continue(_Flow):
    pass


# --------------------------------------------------------------------------
# source index
_AST_CACHE = {}
DROPPED = {}      # qualname -> list of dropped call names (for evidence)


def _file_index(filename):
    idx = _AST_CACHE.get(filename)
    if idx is None:
        with open(filename) as f:
            src = f.read()
        tree = ast.parse(src, filename)
        idx = {'defs': {}, 'lambdas': {}, 'tree': tree, 'src': src}
        for node in ast.walk(tree):
            if isinstance(node, (ast.FunctionDef, ast.AsyncFunctionDef)):
                first = min([node.lineno] + [d.lineno for d in node.decorator_list])
                idx['defs'][(node.name, first)] = node
                idx['defs'][(node.name, node.lineno)] = node
            elif isinstance(node, ast.Lambda):
                idx['lambdas'].setdefault(node.lineno, []).append(node)
        _AST_CACHE[filename] = idx
    return idx


def is_repo_function(f):
    return isinstance(f, types.FunctionType) and f.__code__.co_filename.startswith(REPO_ROOT + os.sep)


def is_repo_class(c):
    if not isinstance(c, type):
        return False
    try:
        fn = inspect.getfile(c)
    except (TypeError, OSError):
        return False
    return fn.startswith(REPO_ROOT + os.sep)


def function_ast(f):
    code = f.__code__
    idx = _file_index(code.co_filename)
    if code.co_name == '<lambda>':
        ls = idx['lambdas'].get(code.co_firstlineno, [])
        if len(ls) != 1:
            raise Unsupported("cannot identify lambda at %s:%d" % (code.co_filename, code.co_firstlineno))
        return ls[0]
    node = idx['defs'].get((code.co_name, code.co_firstlineno))
    if node is None:
        raise Unsupported("no source for %s at %s:%d" % (code.co_name, code.co_filename, code.co_firstlineno))
    return node


def qualname(f):
    return "%s.%s" % (getattr(f, '__module__', '?'), getattr(f, '__qualname__', getattr(f, '__name__', '?')))


def source_info(f):
    """file, first line, last line, sha1 of the ast dump (for evidence)"""
    import hashlib
    node = function_ast(f)
    h = hashlib.sha1(ast.dump(node).encode()).hexdigest()[:16]
    return dict(qualname=qualname(f), file=os.path.relpath(f.__code__.co_filename, REPO_ROOT),
                lines=[node.lineno, getattr(node, 'end_lineno', node.lineno)], ast_sha1=h)


# --------------------------------------------------------------------------
class Frame(object):
    __slots__ = ('locals', 'gdict', 'gnames', 'nonlocals', 'parent', 'fname', 'qual', 'fnode', 'handling')

    def __init__(self, gdict, parent=None, fname='?', qual='?'):
        self.locals = {}
        self.gdict = gdict
        self.gnames = set()
        self.nonlocals = set()
        self.parent = parent
        self.fname = fname
        self.qual = qual
        self.fnode = parent.fnode if parent is not None else None
        self.handling = None


class InterpFunction(object):
    """closure created by interpreting a nested def / lambda"""

    def __init__(self, interp, node, frame, name):
        self.interp = interp
        self.node = node
        self.frame = frame
        self.__name__ = name
        self.defaults = None
        self.kw_defaults = None

    def __call__(self, *args, **kwargs):
        return self.interp.call_ast(self.node, self.frame.gdict, args, kwargs, parent=self.frame,
                                    defaults=self.defaults, kw_defaults=self.kw_defaults,
                                    qual=self.frame.qual + '.<locals>.' + self.__name__)

    def __get__(self, obj, objtype=None):
        return self if obj is None else types.MethodType(self, obj)


class BoundRepo(object):
    def __init__(self, interp, func, obj):
        self.interp, self.func, self.obj = interp, func, obj

    def __call__(self, *args, **kwargs):
        return self.interp.call(self.func, (self.obj,) + tuple(args), kwargs)


_MISSING = object()

DROP_CALLS = {'print'}


class Interp(object):
    def __init__(self, path, stubs=None, max_depth=40, max_loop=300, drop=(), loops=None):
        self.path = path
        self.stubs = stubs or {}
        self.depth = 0
        self.max_depth = max_depth
        self.max_loop = max_loop
        self.drop = set(DROP_CALLS) | set(drop)
        self.called = set()
        self.trace = []
        self.asm_obj = None
        self.cfg = None
        self.loops = loops or {}
        self._ordinals = {}

    # ------------------------------------------------------------------ calls
    def call(self, fn, args=(), kwargs=None, body=False):
        """body=True: interpret the body of fn even if a stub (its own contract, used for recursive calls) is registered"""
        kwargs = kwargs or {}
        # stubs first
        if not body and (isinstance(fn, (types.FunctionType, types.BuiltinFunctionType, type)) or hasattr(fn, '__qualname__')):
            q = qualname(fn)
            st = self.stubs.get(q)
            if st is not None:
                return st(self, *args, **kwargs)
        if isinstance(fn, InterpFunction):
            return fn(*args, **kwargs)
        if isinstance(fn, BoundRepo):
            return fn(*args, **kwargs)
        if isinstance(fn, types.MethodType):
            f = fn.__func__
            if is_repo_function(f) or isinstance(f, InterpFunction):
                return self.call(f, (fn.__self__,) + tuple(args), kwargs)
            return self.native_call(fn, args, kwargs)
        if is_repo_function(fn):
            node = function_ast(fn)
            self.called.add(qualname(fn))
            return self.call_ast(node, fn.__globals__, args, kwargs, defaults=fn.__defaults__,
                                 kw_defaults=fn.__kwdefaults__, qual=qualname(fn))
        if isinstance(fn, type):
            if is_repo_class(fn):
                return self.instantiate(fn, args, kwargs)
            return self.native_call(fn, args, kwargs)
        return self.native_call(fn, args, kwargs)

    def instantiate(self, cls, args, kwargs):
        if issubclass(cls, BaseException):
            return cls(*args, **kwargs)
        meta = type(cls)
        if meta is not type and is_repo_class(meta) and '__call__' in meta.__dict__:
            # e.g. Singleton metaclass: run natively (registry objects)
            return cls(*args, **kwargs)
        import enum
        if issubclass(cls, enum.Enum):
            return cls(*args, **kwargs)
        obj = cls.__new__(cls)
        init = None
        for k in cls.__mro__:
            if '__init__' in k.__dict__:
                init = k.__dict__['__init__']
                break
        if init is not None and is_repo_function(init):
            self.call(init, (obj,) + tuple(args), kwargs)
        elif init is not None and init is not object.__init__:
            init(obj, *args, **kwargs)
        return obj

    def native_call(self, fn, args, kwargs):
        h = NATIVE_HANDLERS.get(_safe_id(fn))
        if h is not None:
            return h(self, *args, **kwargs)
        name = getattr(fn, '__name__', None)
        if name in self.drop and getattr(fn, '__module__', None) in ('builtins', None):
            return None
        return fn(*args, **kwargs)

    def call_ast(self, node, gdict, args, kwargs, parent=None, defaults=None, kw_defaults=None, qual='?'):
        self.depth += 1
        if self.depth > self.max_depth:
            self.depth -= 1
            raise PathLimit("call depth > %d (recursion without contract?) in %s" % (self.max_depth, qual))
        try:
            fr = Frame(gdict, parent, getattr(node, 'name', '<lambda>'), qual)
            if not isinstance(node, ast.Lambda):
                fr.fnode = node
            self.bind_args(node.args, fr, args, kwargs, defaults, kw_defaults)
            if isinstance(node, ast.Lambda):
                return self.eval(node.body, fr)
            for st in ast.walk(node) if False else ():
                pass
            self._scan_scope(node, fr)
            try:
                self.exec_block(node.body, fr)
            except _Return as r:
                return r.v
            return None
        finally:
            self.depth -= 1

    def _scan_scope(self, node, fr):
        for st in _walk_scope(node):
            if isinstance(st, ast.Global):
                fr.gnames.update(st.names)
            elif isinstance(st, ast.Nonlocal):
                fr.nonlocals.update(st.names)

    def bind_args(self, a, fr, args, kwargs, defaults, kw_defaults):
        args = list(args)
        kwargs = dict(kwargs)
        pos = [x.arg for x in a.posonlyargs] + [x.arg for x in a.args]
        defaults = list(defaults or ())
        ndef = len(defaults)
        for i, name in enumerate(pos):
            if i < len(args):
                fr.locals[name] = args[i]
            elif name in kwargs:
                fr.locals[name] = kwargs.pop(name)
            else:
                di = i - (len(pos) - ndef)
                if di < 0:
                    raise TypeError("%s() missing required argument '%s'" % (fr.fname, name))
                fr.locals[name] = defaults[di]
        extra = args[len(pos):]
        if a.vararg is not None:
            fr.locals[a.vararg.arg] = tuple(extra)
        elif extra:
            raise TypeError("%s() takes %d positional arguments but %d were given" % (fr.fname, len(pos), len(args)))
        for x in a.kwonlyargs:
            if x.arg in kwargs:
                fr.locals[x.arg] = kwargs.pop(x.arg)
            elif kw_defaults and x.arg in kw_defaults:
                fr.locals[x.arg] = kw_defaults[x.arg]
            else:
                raise TypeError("missing keyword-only argument " + x.arg)
        if a.kwarg is not None:
            fr.locals[a.kwarg.arg] = kwargs
        elif kwargs:
            raise TypeError("%s() got unexpected keyword arguments %s" % (fr.fname, sorted(kwargs)))

    # ------------------------------------------------------------------ names
    def load_name(self, name, fr):
        f = fr
        if name not in fr.gnames:
            while f is not None:
                if name in f.locals:
                    return f.locals[name]
                f = f.parent
        return self.load_global(name, fr.gdict)

    def load_global(self, name, gdict):
        key = (id(gdict), name)
        ov = self.path.goverlay
        if key in ov:
            v = ov[key]
            if v is _MISSING:
                raise NameError(name)
            return v
        if name in gdict:
            v = gdict[name]
            if type(v) in (list, dict, set):
                v = copy.deepcopy(v)
                ov[key] = v
            return v
        if hasattr(builtins, name):
            return getattr(builtins, name)
        raise NameError("name '%s' is not defined" % name)

    def store_name(self, name, v, fr):
        if name in fr.gnames:
            self.path.goverlay[(id(fr.gdict), name)] = v
            return
        if name in fr.nonlocals:
            f = fr.parent
            while f is not None:
                if name in f.locals:
                    f.locals[name] = v
                    return
                f = f.parent
        fr.locals[name] = v

    def set_global(self, module, name, v):
        self.path.goverlay[(id(vars(module)), name)] = v

    def get_global(self, module, name):
        return self.load_global(name, vars(module))

    def get_global(self, module, name):
        return self.load_global(name, vars(module))

    # ------------------------------------------------------------------ statements
    def exec_block(self, stmts, fr):
        for st in stmts:
            self.exec(st, fr)

    def exec(self, st, fr):
        m = getattr(self, 'x_' + type(st).__name__, None)
        if m is None:
            raise Unsupported("statement %s at line %d of %s" % (type(st).__name__, st.lineno, fr.qual))
        return m(st, fr)

    def x_Expr(self, st, fr):
        v = st.value
        if isinstance(v, ast.Constant):
            return
        self.eval(v, fr)

    def x_Pass(self, st, fr):
        pass

    def x_Global(self, st, fr):
        fr.gnames.update(st.names)

    def x_Nonlocal(self, st, fr):
        fr.nonlocals.update(st.names)

    def x_Return(self, st, fr):
        raise _Return(self.eval(st.value, fr) if st.value is not None else None)

    def x_Break(self, st, fr):
        raise _Break()

    def x_Continue(self, st, fr):
        raise _Continue()

    def x_Assign(self, st, fr):
        v = self.eval(st.value, fr)
        for t in st.targets:
            self.assign(t, v, fr)

    def x_AnnAssign(self, st, fr):
        if st.value is not None:
            self.assign(st.target, self.eval(st.value, fr), fr)

    def x_AugAssign(self, st, fr):
        t = st.target
        if isinstance(t, ast.Name):
            cur = self.load_name(t.id, fr)
            new = self.binop(st.op, cur, self.eval(st.value, fr), inplace=True)
            self.store_name(t.id, new, fr)
        elif isinstance(t, ast.Attribute):
            o = self.eval(t.value, fr)
            cur = self.getattr(o, t.attr)
            new = self.binop(st.op, cur, self.eval(st.value, fr), inplace=True)
            self.setattr(o, t.attr, new)
        elif isinstance(t, ast.Subscript):
            o = self.eval(t.value, fr)
            k = self.eval_slice(t.slice, fr)
            cur = self.getitem(o, k)
            new = self.binop(st.op, cur, self.eval(st.value, fr), inplace=True)
            self.setitem(o, k, new)
        else:
            raise Unsupported("augmented assignment target")

    def assign(self, t, v, fr):
        if isinstance(t, ast.Name):
            self.store_name(t.id, v, fr)
        elif isinstance(t, (ast.Tuple, ast.List)):
            vals = self.to_list(v)
            star = [i for i, e in enumerate(t.elts) if isinstance(e, ast.Starred)]
            if star:
                i = star[0]
                n_after = len(t.elts) - i - 1
                if len(vals) < len(t.elts) - 1:
                    raise ValueError("not enough values to unpack")
                for e, x in zip(t.elts[:i], vals[:i]):
                    self.assign(e, x, fr)
                self.assign(t.elts[i].value, list(vals[i:len(vals) - n_after]), fr)
                for e, x in zip(t.elts[i + 1:], vals[len(vals) - n_after:]):
                    self.assign(e, x, fr)
            else:
                if len(vals) != len(t.elts):
                    raise ValueError("too many/not enough values to unpack (expected %d, got %d)" % (len(t.elts), len(vals)))
                for e, x in zip(t.elts, vals):
                    self.assign(e, x, fr)
        elif isinstance(t, ast.Attribute):
            self.setattr(self.eval(t.value, fr), t.attr, v)
        elif isinstance(t, ast.Subscript):
            self.setitem(self.eval(t.value, fr), self.eval_slice(t.slice, fr), v)
        else:
            raise Unsupported("assignment target %s" % type(t).__name__)

    def x_Delete(self, st, fr):
        for t in st.targets:
            if isinstance(t, ast.Name):
                if t.id in fr.gnames:
                    self.path.goverlay[(id(fr.gdict), t.id)] = _MISSING
                else:
                    del fr.locals[t.id]
            elif isinstance(t, ast.Subscript):
                o = self.eval(t.value, fr)
                k = self.eval_slice(t.slice, fr)
                if isinstance(k, Sym):
                    k = self.concretize_index(k, o)
                del o[k]
            else:
                raise Unsupported("del target")

    def x_If(self, st, fr):
        if self.truth(self.eval(st.test, fr)):
            self.exec_block(st.body, fr)
        else:
            self.exec_block(st.orelse, fr)

    def x_Assert(self, st, fr):
        if not self.truth(self.eval(st.test, fr)):
            msg = self.eval(st.msg, fr) if st.msg is not None else ''
            raise AssertionError(msg)

    def x_Raise(self, st, fr):
        if st.exc is None:
            # re-raise the exception being handled (innermost handler of this frame)
            cur = getattr(fr, 'handling', None)
            if not cur:
                raise RuntimeError("No active exception to reraise")
            raise cur[-1]
        e = self.eval(st.exc, fr)
        if isinstance(e, type):
            e = e()
        raise e

    def x_Try(self, st, fr):
        try:
            try:
                self.exec_block(st.body, fr)
            except (_Flow, EngineError):
                raise
            except BaseException as e:
                for h in st.handlers:
                    if h.type is None:
                        match = True
                    else:
                        t = self.eval(h.type, fr)
                        match = isinstance(e, t)
                    if match:
                        if h.name:
                            fr.locals[h.name] = e
                        if getattr(fr, 'handling', None) is None:
                            fr.handling = []
                        fr.handling.append(e)
                        try:
                            self.exec_block(h.body, fr)
                        finally:
                            fr.handling.pop()
                        break
                else:
                    raise
            else:
                self.exec_block(st.orelse, fr)
        finally:
            if st.finalbody:
                self.exec_block(st.finalbody, fr)

    def x_With(self, st, fr):
        mgrs = []
        try:
            for item in st.items:
                m = self.eval(item.context_expr, fr)
                ent = getattr(m, '__enter__', None)
                if ent is None:
                    raise Unsupported("with statement on %r at line %d of %s" % (type(m).__name__, st.lineno, fr.qual))
                v = ent()
                mgrs.append(m)
                if item.optional_vars is not None:
                    self.assign(item.optional_vars, v, fr)
            self.exec_block(st.body, fr)
        except (_Flow, EngineError):
            for m in reversed(mgrs):
                m.__exit__(None, None, None)
            raise
        except BaseException as e:
            swallow = False
            for m in reversed(mgrs):
                if m.__exit__(type(e), e, e.__traceback__):
                    swallow = True
            if not swallow:
                raise
        else:
            for m in reversed(mgrs):
                m.__exit__(None, None, None)

    def x_Import(self, st, fr):
        for a in st.names:
            mod = __import__(a.name)
            if a.asname:
                import importlib
                mod = importlib.import_module(a.name)
                fr.locals[a.asname] = mod
            else:
                fr.locals[a.name.split('.')[0]] = mod

    def x_ImportFrom(self, st, fr):
        import importlib
        mod = importlib.import_module(st.module)
        for a in st.names:
            fr.locals[a.asname or a.name] = getattr(mod, a.name)

    def x_FunctionDef(self, st, fr):
        f = InterpFunction(self, st, fr, st.name)
        f.defaults = tuple(self.eval(d, fr) for d in st.args.defaults)
        f.kw_defaults = dict((a.arg, self.eval(d, fr)) for a, d in zip(st.args.kwonlyargs, st.args.kw_defaults) if d is not None)
        if st.decorator_list:
            raise Unsupported("decorated nested function")
        self.store_name(st.name, f, fr)

    def loop_spec(self, st, fr):
        if not self.loops:
            return None, None
        root = getattr(fr, 'fnode', None)
        if root is None:
            return None, None
        key = id(root)
        om = self._ordinals.get(key)
        if om is None:
            loops = [n for n in ast.walk(root) if isinstance(n, (ast.For, ast.While))]
            loops.sort(key=lambda n: (n.lineno, n.col_offset))
            om = dict((id(n), k) for k, n in enumerate(loops))
            self._ordinals[key] = om
        k = om.get(id(st))
        spec = self.loops.get((fr.qual, k))
        if spec is None and (fr.qual, '*') in self.loops:
            # contracts selected by the shape of the loop (robust to renamed locals and to loops added / removed elsewhere)
            got = self.loops[(fr.qual, '*')](st)
            if got is not None:
                spec, role = got
                spec.node = st
                return spec, "%s#loop[%s]" % (fr.qual.split('.')[-1], role)
        return spec, "%s#loop%d" % (fr.qual.split('.')[-1], k if k is not None else -1)

    def _check_inv(self, spec, fr, k, label):
        c = spec.inv(self, fr, k)
        if isinstance(c, Sym):
            c = sym.truth(c)
        self.path.prove(label, c)

    def _assume_inv(self, spec, fr, k):
        c = spec.inv(self, fr, k)
        if isinstance(c, Sym):
            c = c.e
        self.path.assume(c)

    def x_While(self, st, fr):
        spec, label = self.loop_spec(st, fr)
        if spec is not None:
            spec.enter(self, fr)
            self._check_inv(spec, fr, None, label + ':invariant-holds-on-entry')
            spec.havoc(self, fr, None)
            self._assume_inv(spec, fr, None)
            if self.truth(self.eval(st.test, fr)):
                try:
                    self.exec_block(st.body, fr)
                except _Break:
                    return
                except _Continue:
                    pass
                self._check_inv(spec, fr, None, label + ':invariant-preserved')
                raise PathEnd()
            for h in spec.exit_hints(self, fr):
                self.path.assume(h)
            self.exec_block(st.orelse, fr)
            return
        n = 0
        while self.truth(self.eval(st.test, fr)):
            n += 1
            if n > self.max_loop:
                raise PathLimit("while loop exceeded %d iterations in %s line %d" % (self.max_loop, fr.qual, st.lineno))
            try:
                self.exec_block(st.body, fr)
            except _Break:
                break
            except _Continue:
                continue
        else:
            self.exec_block(st.orelse, fr)

    def x_For(self, st, fr):
        spec, label = self.loop_spec(st, fr)
        if spec is not None:
            seq = self.eval(st.iter, fr)
            n = _h_len(self, seq)
            spec.enter(self, fr)
            self._check_inv(spec, fr, 0, label + ':invariant-holds-on-entry')
            k = self.path.fresh_int('k')
            self.path.assume(z3.And(k.e >= 0, k.e <= sym._as_int_expr(n)))
            spec.havoc(self, fr, k)
            self._assume_inv(spec, fr, k)
            if self.path.branch(k.e < sym._as_int_expr(n)):
                self.assign(st.target, self.getitem(seq, k), fr)
                try:
                    self.exec_block(st.body, fr)
                except _Break:
                    return
                except _Continue:
                    pass
                self._check_inv(spec, fr, k + 1, label + ':invariant-preserved')
                raise PathEnd()
            for h in spec.exit_hints(self, fr):
                self.path.assume(h)
            self.exec_block(st.orelse, fr)
            return
        it = self.iterate(self.eval(st.iter, fr))
        n = 0
        broke = False
        for x in it:
            n += 1
            if n > self.max_loop:
                raise PathLimit("for loop exceeded %d iterations in %s line %d" % (self.max_loop, fr.qual, st.lineno))
            self.assign(st.target, x, fr)
            try:
                self.exec_block(st.body, fr)
            except _Break:
                broke = True
                break
            except _Continue:
                continue
        if not broke:
            self.exec_block(st.orelse, fr)

    def iterate(self, v):
        if isinstance(v, (SymList, SymZip)) or hasattr(v, '_pyvc_family'):
            raise Unsupported("iteration over a symbolic list without a loop contract")
        if isinstance(v, Sym):
            raise Unsupported("iteration over symbolic scalar")
        if isinstance(v, SymRange):
            return v.iter(self)
        return iter(v)

    def to_list(self, v):
        if isinstance(v, (list, tuple)):
            return list(v)
        if isinstance(v, Sym):
            raise Unsupported("unpacking a symbolic scalar")
        return list(self.iterate(v))

    # ------------------------------------------------------------------ expressions
    def truth(self, v):
        if isinstance(v, SymList):
            return self.path.branch(v.n > 0)
        t = sym.truth(v) if isinstance(v, Sym) else v
        if isinstance(t, Sym):
            return self.path.branch(t.e)
        if isinstance(t, (list, tuple, dict, set, str, int, bool, type(None))):
            return bool(t)
        if is_repo_class(type(t)):
            cls = type(t)
            for nm in ('__bool__', '__len__'):
                for k in cls.__mro__:
                    if nm in k.__dict__ and is_repo_function(k.__dict__[nm]):
                        return self.truth(self.call(k.__dict__[nm], (t,)))
            return True
        return bool(t)

    def eval(self, node, fr):
        m = getattr(self, 'e_' + type(node).__name__, None)
        if m is None:
            raise Unsupported("expression %s at line %d of %s" % (type(node).__name__, node.lineno, fr.qual))
        return m(node, fr)

    def e_Constant(self, node, fr):
        return node.value

    def e_Name(self, node, fr):
        return self.load_name(node.id, fr)

    def e_NamedExpr(self, node, fr):
        v = self.eval(node.value, fr)
        self.assign(node.target, v, fr)
        return v

    def e_Tuple(self, node, fr):
        return tuple(self.eval_elts(node.elts, fr))

    def e_List(self, node, fr):
        return self.eval_elts(node.elts, fr)

    def e_Set(self, node, fr):
        return set(self.eval_elts(node.elts, fr))

    def eval_elts(self, elts, fr):
        out = []
        for e in elts:
            if isinstance(e, ast.Starred):
                out.extend(self.to_list(self.eval(e.value, fr)))
            else:
                out.append(self.eval(e, fr))
        return out

    def e_Dict(self, node, fr):
        d = {}
        for k, v in zip(node.keys, node.values):
            if k is None:
                d.update(self.eval(v, fr))
            else:
                d[self.eval(k, fr)] = self.eval(v, fr)
        return d

    def e_BoolOp(self, node, fr):
        isand = isinstance(node.op, ast.And)
        v = None
        for e in node.values:
            v = self.eval(e, fr)
            t = self.truth(v)
            if isand and not t:
                return v
            if not isand and t:
                return v
        return v

    def e_UnaryOp(self, node, fr):
        v = self.eval(node.operand, fr)
        op = node.op
        if isinstance(op, ast.Not):
            if isinstance(v, Sym):
                return sym.snot(v)
            return not self.truth(v)
        if isinstance(op, ast.USub):
            return -v
        if isinstance(op, ast.UAdd):
            return +v
        if isinstance(op, ast.Invert):
            return ~v
        raise Unsupported("unary op")

    def e_BinOp(self, node, fr):
        return self.binop(node.op, self.eval(node.left, fr), self.eval(node.right, fr))

    def binop(self, op, a, b, inplace=False):
        t = type(op)
        if t is ast.Add:
            if inplace and isinstance(a, list):
                a.extend(self.to_list(b))
                return a
            if isinstance(a, str) and isinstance(b, Sym):
                return sym.wrap(z3.Concat(z3.StringVal(a), self.str_expr(b)))
            if isinstance(a, Sym) and a.kind in ('str',) and not isinstance(b, (str, Sym)):
                raise TypeError("can only concatenate str")
            if isinstance(a, Sym) and a.kind == 'val' and isinstance(b, str):
                if self.path.branch(Val.is_VS(a.e)):
                    return sym.wrap(z3.Concat(Val.sv(a.e), z3.StringVal(b)))
                raise TypeError("unsupported operand type(s) for +: 'int' and 'str'")
            return a + b
        if t is ast.Sub:
            return a - b
        if t is ast.Mult:
            return a * b
        if t is ast.FloorDiv:
            return sym.sym_floordiv(a, b) if (isinstance(a, Sym) or isinstance(b, Sym)) else a // b
        if t is ast.Mod:
            if isinstance(a, str):
                if _has_sym(b):
                    raise Unsupported("str % with symbolic args")
                return a % b
            return sym.sym_mod(a, b) if (isinstance(a, Sym) or isinstance(b, Sym)) else a % b
        if t is ast.Div:
            if isinstance(a, (int, Sym)) and isinstance(b, (int, Sym)) and not isinstance(a, bool):
                return sym.sym_truediv(a, b)
            return a / b
        if t is ast.Pow:
            if isinstance(a, (int, Sym)) and isinstance(b, (int, Sym)):
                return sym.sym_pow(a, b)
            return a ** b
        if t is ast.BitAnd:
            return a & b
        if t is ast.BitOr:
            return a | b
        if t is ast.BitXor:
            return a ^ b
        if t is ast.LShift:
            return a << b
        if t is ast.RShift:
            return a >> b
        raise Unsupported("binary operator %s" % t.__name__)

    def e_IfExp(self, node, fr):
        if self.truth(self.eval(node.test, fr)):
            return self.eval(node.body, fr)
        return self.eval(node.orelse, fr)

    def e_Lambda(self, node, fr):
        f = InterpFunction(self, node, fr, '<lambda>')
        f.defaults = tuple(self.eval(d, fr) for d in node.args.defaults)
        f.kw_defaults = {}
        return f

    def e_Compare(self, node, fr):
        left = self.eval(node.left, fr)
        result = True
        for op, rn in zip(node.ops, node.comparators):
            right = self.eval(rn, fr)
            r = self.compare(op, left, right)
            if len(node.ops) == 1:
                return r
            if not self.truth(r):
                return r
            result = r
            left = right
        return result

    def compare(self, op, a, b):
        t = type(op)
        if t is ast.Eq:
            return self.eq(a, b)
        if t is ast.NotEq:
            r = self.eq(a, b)
            return sym.snot(r) if isinstance(r, Sym) else (not r)
        if t is ast.Lt:
            return a < b
        if t is ast.LtE:
            return a <= b
        if t is ast.Gt:
            return a > b
        if t is ast.GtE:
            return a >= b
        if t is ast.Is:
            return self.is_(a, b)
        if t is ast.IsNot:
            r = self.is_(a, b)
            return sym.snot(r) if isinstance(r, Sym) else (not r)
        if t is ast.In:
            return self.contains(b, a)
        if t is ast.NotIn:
            r = self.contains(b, a)
            return sym.snot(r) if isinstance(r, Sym) else (not r)
        raise Unsupported("comparison operator")

    def is_(self, a, b):
        if isinstance(a, Sym) or isinstance(b, Sym):
            if a is None or b is None:
                return sym.sym_eq(a, b)
            if isinstance(a, bool) or isinstance(b, bool):
                s, c = (a, b) if isinstance(a, Sym) else (b, a)
                if s.kind == 'bool':
                    return sym.sym_eq(s, c)
                return False
            raise Unsupported("identity comparison on symbolic values")
        return a is b

    def eq(self, a, b):
        if isinstance(a, Sym) or isinstance(b, Sym):
            if isinstance(a, (list, tuple, dict, set)) or isinstance(b, (list, tuple, dict, set)):
                return False
            return sym.sym_eq(a, b)
        ta, tb = type(a), type(b)
        if ta in (list, tuple) and ta is tb:
            if len(a) != len(b):
                return False
            return sym.sand(*[self.eq(x, y) for x, y in zip(a, b)]) if _has_sym(a) or _has_sym(b) or _has_repo(a) else a == b
        if ta is dict and tb is dict:
            if not (_has_sym(a) or _has_sym(b) or _has_repo(a)):
                return a == b
            if set(a.keys()) != set(b.keys()):
                return False
            return sym.sand(*[self.eq(a[k], b[k]) for k in a])
        if is_repo_class(ta):
            for k in ta.__mro__:
                if '__eq__' in k.__dict__:
                    f = k.__dict__['__eq__']
                    if is_repo_function(f):
                        return self.call(f, (a, b))
                    break
        return a == b

    def contains(self, cont, item):
        h = getattr(cont, '_pyvc_contains', None)
        if h is not None:
            return h(item)
        if isinstance(cont, Sym):
            if cont.kind == 'str':
                return sym.wrap(z3.Contains(cont.e, self.str_expr(item)))
            if cont.kind == 'val':
                if self.path.branch(Val.is_VS(cont.e)):
                    return sym.wrap(z3.Contains(Val.sv(cont.e), self.str_expr(item)))
                raise TypeError("argument of type 'int' is not iterable")
            raise TypeError("argument of type '%s' is not iterable" % cont.kind)
        if isinstance(cont, str):
            if isinstance(item, Sym):
                if item.kind == 'val':
                    if self.path.branch(Val.is_VS(item.e)):
                        return sym.wrap(z3.Contains(z3.StringVal(cont), Val.sv(item.e)))
                    raise TypeError("'in <string>' requires string as left operand, not int")
                return sym.wrap(z3.Contains(z3.StringVal(cont), item.e))
            return item in cont
        if isinstance(cont, (list, tuple)):
            if not _has_sym(cont) and not isinstance(item, Sym) and not _has_repo(cont) and not _has_sym(item):
                return item in cont
            return sym.sor(*[self.eq(x, item) for x in cont])
        if isinstance(cont, (set, frozenset)) or isinstance(cont, dict) or type(cont).__name__ in ('dict_keys',):
            if isinstance(item, Sym):
                return sym.sor(*[sym.sym_eq(item, k) for k in list(cont)])
            return item in cont
        if isinstance(cont, (range,)):
            if isinstance(item, Sym):
                return sym.sor(*[sym.sym_eq(item, k) for k in cont])
            return item in cont
        if isinstance(cont, SymRange):
            return cont.contains(item)
        return item in cont

    def e_Attribute(self, node, fr):
        return self.getattr(self.eval(node.value, fr), node.attr)

    def getattr(self, o, name):
        if isinstance(o, Sym):
            return SymMethod(self, o, name)
        cls = type(o)
        if is_repo_class(cls) and not isinstance(o, type):
            attr = _static_lookup(cls, name)
            if isinstance(attr, property):
                if is_repo_function(attr.fget):
                    return self.call(attr.fget, (o,))
                return attr.fget(o)
            d = getattr(o, '__dict__', None)
            if d is not None and name in d:
                return d[name]
            if isinstance(attr, types.FunctionType):
                return BoundRepo(self, attr, o) if is_repo_function(attr) else types.MethodType(attr, o)
            if isinstance(attr, staticmethod):
                return attr.__func__
            if isinstance(attr, classmethod):
                return types.MethodType(attr.__func__, cls)
            if attr is _MISSING:
                raise AttributeError("'%s' object has no attribute '%s'" % (cls.__name__, name))
            return getattr(o, name)
        if isinstance(o, types.ModuleType):
            f = getattr(o, '__file__', None) or ''
            if f.startswith(REPO_ROOT + os.sep):
                return self.load_global(name, vars(o)) if (name in vars(o) or (id(vars(o)), name) in self.path.goverlay) else getattr(o, name)
            return getattr(o, name)
        if isinstance(o, (list, dict, set, str, tuple)) and name in SPECIAL_METHODS.get(type(o), ()):
            return SpecialMethod(self, o, name)
        return getattr(o, name)

    def setattr(self, o, name, v):
        cls = type(o)
        if isinstance(o, types.ModuleType):
            self.path.goverlay[(id(vars(o)), name)] = v
            return
        if is_repo_class(cls):
            attr = _static_lookup(cls, name)
            if isinstance(attr, property):
                if attr.fset is None:
                    raise AttributeError("can't set attribute")
                if is_repo_function(attr.fset):
                    self.call(attr.fset, (o, v))
                else:
                    attr.fset(o, v)
                return
            object.__setattr__(o, name, v)
            return
        setattr(o, name, v)

    def e_Subscript(self, node, fr):
        return self.getitem(self.eval(node.value, fr), self.eval_slice(node.slice, fr))

    def eval_slice(self, s, fr):
        if isinstance(s, ast.Slice):
            lo = self.eval(s.lower, fr) if s.lower is not None else None
            hi = self.eval(s.upper, fr) if s.upper is not None else None
            st = self.eval(s.step, fr) if s.step is not None else None
            if any(isinstance(x, Sym) for x in (lo, hi, st)):
                return SymSlice(lo, hi, st)
            return slice(lo, hi, st)
        return self.eval(s, fr)

    def concretize_index(self, k, o):
        """fork a symbolic int index into a concrete position of sequence o (IndexError path included)"""
        k = sym.as_int(k, 'index')
        if not isinstance(k, Sym):
            return k
        n = len(o)
        for i in range(n):
            if self.path.branch(k.e == i):
                return i
        for i in range(1, n + 1):
            if self.path.branch(k.e == -i):
                return -i
        raise IndexError("list index out of range")

    def getitem(self, o, k):
        if isinstance(o, Sym):
            return self.sym_getitem(o, k)
        if isinstance(o, (list, tuple)):
            if isinstance(k, Sym):
                k = self.concretize_index(k, o)
            elif isinstance(k, SymSlice):
                raise Unsupported("symbolic slice of list")
            return o[k]
        if isinstance(o, str):
            if isinstance(k, (Sym, SymSlice)):
                return self.sym_getitem(Sym(z3.StringVal(o)), k)
            return o[k]
        if isinstance(o, dict):
            if isinstance(k, Sym):
                for key in list(o.keys()):
                    r = sym.sym_eq(k, key)
                    if isinstance(r, Sym):
                        if self.path.branch(r.e):
                            return o[key]
                    elif r:
                        return o[key]
                raise KeyError(k)
            return o[k]
        cls = type(o)
        if is_repo_class(cls):
            f = _static_lookup(cls, '__getitem__')
            if is_repo_function(f):
                return self.call(f, (o, k))
        return o[k]

    def sym_getitem(self, o, k):
        if o.kind == 'val':
            if self.path.branch(Val.is_VS(o.e)):
                o = sym.wrap(Val.sv(o.e))
                if not isinstance(o, Sym):
                    return self.getitem(o, k)
            else:
                raise TypeError("'int' object is not subscriptable")
        if o.kind != 'str':
            raise TypeError("'%s' object is not subscriptable" % o.kind)
        e = o.e
        n = z3.Length(e)
        if isinstance(k, (slice, SymSlice)):
            if k.step is not None:
                raise Unsupported("string slice with step")
            lo, hi = k.start, k.stop
            lo = 0 if lo is None else lo
            if isinstance(lo, int) and lo >= 0 and hi is None:
                # peel a literal prefix
                if z3.is_app(e) and e.decl().kind() == z3.Z3_OP_SEQ_CONCAT and z3.is_string_value(e.arg(0)) \
                        and len(e.arg(0).as_string()) == lo and e.num_args() == 2:
                    return sym.wrap(e.arg(1))
                return sym.wrap(z3.SubString(e, lo, n - lo))
            if isinstance(lo, int) and lo >= 0 and isinstance(hi, int) and hi >= 0:
                return sym.wrap(z3.SubString(e, lo, max(0, hi - lo)))
            if isinstance(lo, int) and lo >= 0 and isinstance(hi, int) and hi < 0:
                ln = n + hi - lo
                return sym.wrap(z3.SubString(e, lo, z3.If(ln > 0, ln, 0)))
            raise Unsupported("string slice form")
        ke = sym._as_int_expr(sym.as_int(k, 'index'))
        if self.path.branch(z3.And(ke >= 0, ke < n)):
            return sym.wrap(z3.SubString(e, ke, 1))
        if self.path.branch(z3.And(ke < 0, -ke <= n)):
            return sym.wrap(z3.SubString(e, n + ke, 1))
        raise IndexError("string index out of range")

    def setitem(self, o, k, v):
        if isinstance(o, list) and isinstance(k, Sym):
            k = self.concretize_index(k, o)
        if isinstance(o, dict) and isinstance(k, Sym):
            for key in list(o.keys()):
                r = sym.sym_eq(k, key)
                if (isinstance(r, Sym) and self.path.branch(r.e)) or (not isinstance(r, Sym) and r):
                    o[key] = v
                    return
            raise Unsupported("insertion of a symbolic key into a dict")
        o[k] = v

    def e_Starred(self, node, fr):
        raise Unsupported("starred expression")

    def e_JoinedStr(self, node, fr):
        parts = []
        for v in node.values:
            if isinstance(v, ast.Constant):
                parts.append(v.value)
            else:
                x = self.eval(v.value, fr)
                if v.format_spec is not None or v.conversion not in (-1, 115, 114):
                    if _has_sym(x):
                        raise Unsupported("format spec on symbolic value")
                    parts.append(format(x, self.eval(v.format_spec, fr) if v.format_spec else ''))
                else:
                    parts.append(self.to_str(x) if v.conversion != 114 else (repr(x) if not _has_sym(x) else self.to_str(x)))
        if any(isinstance(p, Sym) for p in parts):
            return sym.wrap(z3.Concat(*[self.str_expr(p) for p in parts])) if len(parts) > 1 else parts[0]
        return ''.join(parts)

    def e_FormattedValue(self, node, fr):
        return self.to_str(self.eval(node.value, fr))

    def str_expr(self, x):
        if isinstance(x, Sym):
            if x.kind == 'str':
                return x.e
            return self.str_expr(self.to_str(x))
        if isinstance(x, str):
            return z3.StringVal(x)
        raise Unsupported("string expected")

    def to_str(self, x):
        if isinstance(x, Sym):
            k = x.kind
            if k == 'str':
                return x
            if k == 'int':
                t = sym.int2str(x.e)
                self.path.axiom(z3.And(sym.numeral(t), sym.numval(t) == x.e))
                return Sym(t)
            if k == 'bool':
                return sym.ite(x, "True", "False")
            if k == 'val':
                if self.path.branch(Val.is_VS(x.e)):
                    return sym.wrap(Val.sv(x.e))
                if self.path.branch(Val.is_VI(x.e)):
                    return self.to_str(sym.wrap(Val.iv(x.e)))
                return "None"
        if _has_sym(x):
            if isinstance(x, (list, tuple)):
                raise Unsupported("str() of container with symbolic values")
        cls = type(x)
        if is_repo_class(cls):
            f = _static_lookup(cls, '__str__')
            if is_repo_function(f):
                return self.call(f, (x,))
        return str(x)

    def to_int(self, x, base=None):
        if isinstance(x, sym.FloatDiv):
            return x.floor()      # int() truncates; equal to floor for non-negative quotients (noted)
        if isinstance(x, Sym):
            k = x.kind
            if k == 'val':
                if self.path.branch(Val.is_VI(x.e)):
                    if base is not None:
                        raise TypeError("int() can't convert non-string with explicit base")
                    return sym.wrap(Val.iv(x.e))
                if self.path.branch(Val.is_VS(x.e)):
                    return self.to_int(sym.wrap(Val.sv(x.e)), base)
                raise TypeError("int() argument must be a string or a number, not 'NoneType'")
            if k == 'int':
                if base is not None:
                    raise TypeError("int() can't convert non-string with explicit base")
                return x
            if k == 'bool':
                return sym.wrap(z3.If(x.e, 1, 0))
            if k == 'str':
                if base in (None, 10):
                    if self.path.branch(sym.numeral(x.e)):
                        return sym.wrap(sym.numval(x.e))
                    raise ValueError("invalid literal for int() with base 10")
                if base == 16:
                    if self.path.branch(hexnumeral(x.e)):
                        return sym.wrap(hexval(x.e))
                    raise ValueError("invalid literal for int() with base 16")
                raise Unsupported("int(str, base=%r)" % (base,))
        if isinstance(x, str) or base is not None:
            return int(x, base) if base is not None else int(x)
        return int(x)

    def _abstract_comp(self, node, fr):
        g = node.generators[0]
        it = self.eval(g.iter, fr)
        if not isinstance(it, AbstractSeq):
            return (it,)
        if len(node.generators) != 1:
            raise Unsupported("nested comprehension over an abstract sequence")
        tgt = ast.dump(g.target)
        res = it
        if g.ifs:
            res = res.derive('filter', tgt + '|' + '&'.join(ast.dump(c) for c in g.ifs))
        if not (isinstance(node.elt, ast.Name) and isinstance(g.target, ast.Name) and node.elt.id == g.target.id):
            res = res.derive('map', tgt + '|' + ast.dump(node.elt))
        return res

    def e_ListComp(self, node, fr):
        r = self._abstract_comp(node, fr)
        if isinstance(r, AbstractSeq):
            return r
        out = []
        self.comp(node.generators, 0, fr, lambda f: out.append(self.eval(node.elt, f)), first=r)
        return out

    def e_GeneratorExp(self, node, fr):
        r = self._abstract_comp(node, fr)
        if isinstance(r, AbstractSeq):
            return r
        out = []
        self.comp(node.generators, 0, fr, lambda f: out.append(self.eval(node.elt, f)), first=r)
        return out

    def e_SetComp(self, node, fr):
        out = set()
        self.comp(node.generators, 0, fr, lambda f: out.add(self.eval(node.elt, f)))
        return out

    def e_DictComp(self, node, fr):
        src0 = self.eval(node.generators[0].iter, fr)
        if isinstance(src0, SymList):
            # a dictionary built from a list of symbolic length: havocked (any membership / any value), recorded
            self.path.note("havoc: dict comprehension over a symbolic list (%s line %d)" % (fr.qual, node.lineno))
            return OpaqueDict(self.path)
        out = {}

        def add(f):
            k = self.eval(node.key, f)
            out[k] = self.eval(node.value, f)
        self.comp(node.generators, 0, fr, add, first=(src0,))
        return out

    def comp(self, gens, i, fr, emit, first=None):
        if i == 0:
            fr = Frame(fr.gdict, fr, fr.fname, fr.qual)
            fr.gnames = set()
        if i == len(gens):
            emit(fr)
            return
        g = gens[i]
        n = 0
        src = first[0] if (i == 0 and first is not None) else self.eval(g.iter, fr)
        for x in self.iterate(src):
            n += 1
            if n > self.max_loop * 10:
                raise PathLimit("comprehension too long")
            self.assign(g.target, x, fr)
            if all(self.truth(self.eval(c, fr)) for c in g.ifs):
                self.comp(gens, i + 1, fr, emit)

    def e_Call(self, node, fr):
        fnode = node.func
        if isinstance(fnode, ast.Name) and fnode.id in self.drop and fnode.id not in fr.locals:
            # the call itself is dropped (output only), but its arguments are evaluated: they may raise
            try:
                for a in node.args:
                    self.eval(a.value if isinstance(a, ast.Starred) else a, fr)
                for k in node.keywords:
                    self.eval(k.value, fr)
            except Unsupported as e:
                self.path.note("argument of a dropped %s(...) call not interpreted: %s" % (fnode.id, e))
            return None
        fn = self.eval(fnode, fr)
        args = []
        for a in node.args:
            if isinstance(a, ast.Starred):
                args.extend(self.to_list(self.eval(a.value, fr)))
            else:
                args.append(self.eval(a, fr))
        kwargs = {}
        for k in node.keywords:
            if k.arg is None:
                kwargs.update(self.eval(k.value, fr))
            else:
                kwargs[k.arg] = self.eval(k.value, fr)
        return self.call(fn, args, kwargs)


def _walk_scope(node):
    """statements of a function body without descending into nested defs"""
    stack = list(node.body) if not isinstance(node, ast.Lambda) else []
    while stack:
        n = stack.pop()
        yield n
        for c in ast.iter_child_nodes(n):
            if isinstance(c, (ast.FunctionDef, ast.Lambda, ast.ClassDef, ast.AsyncFunctionDef)):
                continue
            if isinstance(c, ast.stmt):
                stack.append(c)
            elif isinstance(c, ast.ExceptHandler):
                stack.extend(c.body)


def _static_lookup(cls, name):
    for k in cls.__mro__:
        if name in k.__dict__:
            return k.__dict__[name]
    return _MISSING


def _has_sym(x, depth=0):
    if isinstance(x, Sym):
        return True
    if depth > 6:
        return False
    if isinstance(x, (list, tuple, set, frozenset)):
        return any(_has_sym(y, depth + 1) for y in x)
    if isinstance(x, dict):
        return any(_has_sym(y, depth + 1) for y in x.values())
    if is_repo_class(type(x)) and hasattr(x, '__dict__'):
        return any(_has_sym(y, depth + 1) for y in vars(x).values())
    return False


def _has_repo(x, depth=0):
    if depth > 4:
        return False
    if isinstance(x, (list, tuple)):
        return any(_has_repo(y, depth + 1) for y in x)
    if isinstance(x, dict):
        return any(_has_repo(y, depth + 1) for y in x.values())
    return is_repo_class(type(x)) and not isinstance(x, type)


def _safe_id(fn):
    try:
        return id(fn)
    except Exception:
        return None


# --------------------------------------------------------------------------
hexval = z3.Function('hexval', z3.StringSort(), z3.IntSort())
hexnumeral = z3.Function('hexnumeral', z3.StringSort(), z3.BoolSort())
hexstr = z3.Function('hexstr', z3.IntSort(), z3.StringSort())


def hex_of(path, x):
    """lower-case hex digits of a non-negative int (no prefix); inverse axioms instantiated"""
    if not isinstance(x, Sym):
        return hex(x)[2:]
    t = hexstr(x.e)
    path.axiom(z3.And(hexnumeral(t), hexval(t) == x.e, z3.Length(t) >= 1, (t == z3.StringVal("0")) == (x.e == 0)))
    return Sym(t)


class AbstractSeq(object):
    """a list of unknown (symbolic) length whose elements are only observed through list
    homomorphisms: len(S), [f(x) for x in S], [x for x in S if p(x)], sum(...).  Each derived
    quantity is an uninterpreted summary determined by (S, source text of f / p): functional
    consistency is kept, nothing else is assumed (sound over-approximation).  The element-level
    facts (f(x) equals the oracle for every x) are separate item-level obligations; lifting them
    to sums is the map/sum congruence lemma of the spec library."""

    def __init__(self, name, length=None, parent=None, key=''):
        self.name = name
        self.parent = parent
        self.key = key
        if length is None:
            length = Sym(z3.Int('len!' + name))
            sym.cur().assume(length.e >= 0)
        self.length = length
        self._derived = {}

    def derive(self, kind, key):
        import hashlib
        k = (kind, key)
        d = self._derived.get(k)
        if d is None:
            h = hashlib.sha1(key.encode()).hexdigest()[:10]
            nm = "%s.%s_%s" % (self.name, kind, h)
            if kind == 'map':
                d = AbstractSeq(nm, self.length, self, key)
            else:
                n = Sym(z3.Int('len!' + nm))
                sym.cur().assume(z3.And(n.e >= 0, n.e <= sym._as_int_expr(self.length)))
                d = AbstractSeq(nm, n, self, key)
            self._derived[k] = d
        return d

    def total(self):
        t = Sym(z3.Int('sum!' + self.name))
        return t

    def __deepcopy__(self, memo):
        return self

    def __iter__(self):
        raise Unsupported("iteration over an abstract sequence (%s) outside a comprehension" % self.name)

    def __len__(self):
        raise Unsupported("native len() of abstract sequence")


class OpaqueDict(object):
    """an unknown dictionary (sound over-approximation): membership and values are unconstrained"""

    def __init__(self, path):
        self.path = path

    def _pyvc_contains(self, item):
        return self.path.fresh_bool('indict')

    def __getitem__(self, k):
        return self.path.fresh_val('dictval')

    def get(self, k, d=None):
        return self.path.fresh_val('dictval')


class SymSlice(object):
    def __init__(self, start, stop, step):
        self.start, self.stop, self.step = start, stop, step


class SymRange(object):
    """range() with symbolic bounds: iterated by forking on the loop condition"""

    def __init__(self, start, stop, step=1):
        self.start, self.stop, self.step = start, stop, step
        if isinstance(step, Sym):
            raise Unsupported("range with symbolic step")

    def iter(self, interp):
        i = self.start
        n = 0
        while True:
            c = (i < self.stop) if self.step > 0 else (i > self.stop)
            if not interp.truth(c):
                return
            yield i
            i = i + self.step
            n += 1
            if n > interp.max_loop:
                raise PathLimit("symbolic range exceeded %d iterations" % interp.max_loop)

    def length(self):
        if self.step != 1:
            raise Unsupported("len of a range with step")
        d = self.stop - self.start
        return sym.ite(d > 0, d, 0) if isinstance(d, Sym) else max(d, 0)

    def __getitem__(self, k):
        if self.step != 1:
            raise Unsupported("item of a range with step")
        return self.start + k

    def contains(self, item):
        if self.step != 1:
            raise Unsupported("in range with step")
        return sym.sand(item >= self.start, item < self.stop)


class SymMethod(object):
    """method of a symbolic scalar (strings mostly)"""

    def __init__(self, interp, o, name):
        self.interp, self.o, self.name = interp, o, name

    def __call__(self, *args, **kwargs):
        it, o, name = self.interp, self.o, self.name
        if o.kind == 'val':
            if it.path.branch(Val.is_VS(o.e)):
                o = sym.wrap(Val.sv(o.e))
                if not isinstance(o, Sym):
                    return getattr(o, name)(*args, **kwargs)
            elif it.path.branch(Val.is_VI(o.e)):
                raise AttributeError("'int' object has no attribute '%s'" % name)
            else:
                raise AttributeError("'NoneType' object has no attribute '%s'" % name)
        if o.kind != 'str':
            raise AttributeError("'%s' object has no attribute '%s'" % (o.kind, name))
        e = o.e
        if name == 'startswith':
            return sym.wrap(z3.PrefixOf(it.str_expr(args[0]), e))
        if name == 'endswith':
            return sym.wrap(z3.SuffixOf(it.str_expr(args[0]), e))
        if name == 'find':
            return sym.wrap(z3.IndexOf(e, it.str_expr(args[0]), 0))
        if name in ('strip', 'lower', 'upper', 'split', 'replace', 'format', 'join'):
            raise Unsupported("str.%s on symbolic string" % name)
        raise Unsupported("method %s of symbolic string" % name)


SPECIAL_METHODS = {
    list: {'index', 'count', 'remove', '__contains__'},
    tuple: {'index', 'count'},
    dict: {'get', 'pop', '__contains__'},
    str: {'join', 'startswith', 'find', 'format', 'endswith'},
    set: set(),
}


class SpecialMethod(object):
    """container methods that need symbolic-aware equality"""

    def __init__(self, interp, o, name):
        self.interp, self.o, self.name = interp, o, name

    def __call__(self, *args, **kwargs):
        it, o, name = self.interp, self.o, self.name
        if isinstance(o, (list, tuple)):
            if name == 'index':
                if len(args) != 1:
                    return getattr(o, name)(*args)
                for i, x in enumerate(o):
                    if it.truth(it.eq(x, args[0])):
                        return i
                raise ValueError("x not in list")
            if name == 'count':
                n = 0
                for x in o:
                    r = it.eq(x, args[0])
                    n = n + (sym.ite(r, 1, 0) if isinstance(r, Sym) else (1 if r else 0))
                return n
            if name == 'remove':
                for i, x in enumerate(o):
                    if it.truth(it.eq(x, args[0])):
                        del o[i]
                        return None
                raise ValueError("list.remove(x): x not in list")
            if name == '__contains__':
                return it.contains(o, args[0])
        if isinstance(o, dict):
            if name == 'get':
                k = args[0]
                d = args[1] if len(args) > 1 else kwargs.get('default')
                if isinstance(k, Sym):
                    for key in list(o.keys()):
                        if it.truth(sym.sym_eq(k, key)):
                            return o[key]
                    return d
                return o.get(k, d)
            if name == 'pop':
                k = args[0]
                if isinstance(k, Sym):
                    for key in list(o.keys()):
                        if it.truth(sym.sym_eq(k, key)):
                            return o.pop(key)
                    if len(args) > 1:
                        return args[1]
                    raise KeyError(k)
                return o.pop(*args)
            if name == '__contains__':
                return it.contains(o, args[0])
        if isinstance(o, str):
            if name == 'join':
                parts = it.to_list(args[0])
                if not _has_sym(parts):
                    return o.join(parts)
                es = []
                for i, p in enumerate(parts):
                    if i:
                        es.append(z3.StringVal(o))
                    es.append(it.str_expr(p) if (isinstance(p, str) or (isinstance(p, Sym) and p.kind == 'str')) else _raise(TypeError("sequence item: expected str")))
                es = [x for x in es if not (z3.is_string_value(x) and x.as_string() == '')]
                if not es:
                    return ''
                return sym.wrap(z3.Concat(*es)) if len(es) > 1 else sym.wrap(es[0])
            if name in ('startswith', 'endswith', 'find'):
                if _has_sym(args):
                    return SymMethod(it, Sym(z3.StringVal(o)), name)(*args)
                return getattr(o, name)(*args)
            if name == 'format':
                if _has_sym(args) or _has_sym(kwargs):
                    raise Unsupported("str.format with symbolic args")
                return o.format(*args, **kwargs)
        return getattr(o, name)(*args, **kwargs)


def _raise(e):
    raise e


# --------------------------------------------------------------------------
# native builtins that need symbolic awareness
def _h_int(it, x=0, base=None):
    return it.to_int(x, base)


def _h_str(it, x=''):
    return it.to_str(x)


def _h_len(it, x):
    if isinstance(x, SymList):
        return x.length()
    if isinstance(x, SymZip):
        return x.length()
    if isinstance(x, SymRange) or hasattr(x, '_pyvc_family'):
        return x.length()
    if isinstance(x, AbstractSeq):
        return x.length
    if isinstance(x, Sym):
        if x.kind == 'str':
            return sym.wrap(z3.Length(x.e))
        if x.kind == 'val':
            if it.path.branch(Val.is_VS(x.e)):
                return sym.wrap(z3.Length(Val.sv(x.e)))
            raise TypeError("object of type 'int' has no len()")
        raise TypeError("object of type '%s' has no len()" % x.kind)
    cls = type(x)
    if is_repo_class(cls):
        f = _static_lookup(cls, '__len__')
        if is_repo_function(f):
            return it.call(f, (x,))
    if type(x).__module__.startswith('pyvc') and not hasattr(type(x), '__len__'):
        raise Unsupported("len() of the engine object %s" % type(x).__name__)
    return len(x)


def _h_type(it, x, *rest):
    if rest:
        return type(x, *rest)
    if isinstance(x, Sym):
        k = x.kind
        if k == 'int':
            return int
        if k == 'bool':
            return bool
        if k == 'str':
            return str
        if k == 'val':
            if it.path.branch(Val.is_VI(x.e)):
                return int
            if it.path.branch(Val.is_VS(x.e)):
                return str
            return type(None)
    if isinstance(x, sym.FloatDiv):
        return float
    if isinstance(x, InterpFunction):
        return types.FunctionType
    return type(x)


def _h_isinstance(it, x, t):
    if isinstance(x, Sym):
        rt = _h_type(it, x)
        return issubclass(rt, t)
    if isinstance(x, sym.FloatDiv):
        return issubclass(float, t)
    return isinstance(x, t)


def _h_bool(it, x=False):
    if isinstance(x, Sym):
        return sym.truth(x)
    return it.truth(x)


def _h_floor(it, x):
    if isinstance(x, sym.FloatDiv):
        return x.floor()
    if isinstance(x, Sym):
        return sym.as_int(x, 'floor')
    return math.floor(x)


def _h_ceil(it, x):
    if isinstance(x, sym.FloatDiv):
        raise Unsupported("ceil of float division")
    if isinstance(x, Sym):
        return sym.as_int(x, 'ceil')
    return math.ceil(x)


def _h_hex(it, x):
    if isinstance(x, Sym):
        x = sym.as_int(x, 'hex')
        if it.path.branch(x.e < 0):
            raise Unsupported("hex of negative symbolic int")
        return sym.wrap(z3.Concat(z3.StringVal("0x"), hex_of(it.path, x).e))
    return hex(x)


def _h_range(it, *args):
    if any(isinstance(a, Sym) for a in args):
        args = [sym.as_int(a, 'range') for a in args]
        if len(args) == 1:
            return SymRange(0, args[0])
        return SymRange(*args)
    return range(*args)


def _minmax(it, ismax, args, kwargs):
    key = kwargs.get('key')
    default = kwargs.get('default', _MISSING)
    if len(args) == 1:
        items = it.to_list(args[0])
    else:
        items = list(args)
    if not items:
        if default is not _MISSING:
            return default
        raise ValueError("arg is an empty sequence")
    if key is None and _has_sym(items) and all(isinstance(x, (int, Sym)) for x in items):
        best = items[0]
        for x in items[1:]:
            c = (x > best) if ismax else (x < best)
            best = sym.ite(c, x, best)
        return best
    best = items[0]
    kb = it.call(key, (best,)) if key else best
    for x in items[1:]:
        kx = it.call(key, (x,)) if key else x
        c = (kx > kb) if ismax else (kx < kb)
        if it.truth(c):
            best, kb = x, kx
    return best


def _h_max(it, *args, **kwargs):
    return _minmax(it, True, args, kwargs)


def _h_min(it, *args, **kwargs):
    return _minmax(it, False, args, kwargs)


def _h_sum(it, xs, start=0):
    if isinstance(xs, AbstractSeq):
        return xs.total() + start
    t = start
    for x in it.iterate(xs):
        t = t + x
    return t


def _h_any(it, xs):
    for x in it.iterate(xs):
        if it.truth(x):
            return True
    return False


def _h_all(it, xs):
    for x in it.iterate(xs):
        if not it.truth(x):
            return False
    return True


def _h_filter(it, f, xs):
    out = []
    for x in it.iterate(xs):
        if it.truth(it.call(f, (x,)) if f is not None else x):
            out.append(x)
    return out


def _h_map(it, f, *xss):
    return [it.call(f, xs) for xs in zip(*[it.to_list(x) for x in xss])]


def _h_sorted(it, xs, key=None, reverse=False):
    items = it.to_list(xs)
    if not _has_sym(items) and key is None:
        return sorted(items, reverse=reverse)
    keys = [it.call(key, (x,)) if key else x for x in items]
    if not _has_sym(keys):
        order = sorted(range(len(items)), key=lambda i: keys[i], reverse=reverse)
        return [items[i] for i in order]
    # insertion sort with symbolic comparisons (stable)
    out = []
    for x, k in zip(items, keys):
        pos = len(out)
        for j in range(len(out)):
            c = (out[j][0] < k) if reverse else (k < out[j][0])
            if it.truth(c):
                pos = j
                break
        out.insert(pos, (k, x))
    return [x for _, x in out]


def _h_list(it, xs=()):
    return it.to_list(xs)


def _h_tuple(it, xs=()):
    return tuple(it.to_list(xs))


def _h_enumerate(it, xs, start=0):
    if isinstance(xs, SymList) or hasattr(xs, '_pyvc_family'):
        n = xs.length()
        return SymZip([SymRange(start, start + n), xs])
    return list(enumerate(it.to_list(xs), start))


class SymZip(object):
    """zip(...) over lists of which at least one has a symbolic length: usable as the iterable of a loop under contract"""

    def __init__(self, lists):
        self.lists = lists

    def length(self):
        n = None
        for x in self.lists:
            ln = x.length() if hasattr(x, 'length') else len(x)
            n = ln if n is None else sym.ite(ln < n, ln, n)
        return n

    def __getitem__(self, k):
        return tuple(x[k] for x in self.lists)

    def __iter__(self):
        raise Unsupported("iteration over a zip of symbolic lists without a loop contract")


def _h_zip(it, *xss, **kw):
    if any(isinstance(x, SymList) or hasattr(x, '_pyvc_family') for x in xss) \
            and all(isinstance(x, (SymList, list, tuple)) or hasattr(x, '_pyvc_family') for x in xss):
        return SymZip(list(xss))
    return list(zip(*[it.to_list(x) for x in xss]))


def _h_abs(it, x):
    return abs(x)


def _h_pow(it, a, b, m=None):
    if isinstance(a, (int, Sym)) and isinstance(b, (int, Sym)):
        return sym.sym_pow(a, b, m)
    return pow(a, b, m)


def _h_deepcopy(it, x, memo=None):
    return copy.deepcopy(x)


def _h_print(it, *a, **k):
    return None


def _h_set(it, xs=()):
    return set(it.to_list(xs))


def _h_repr(it, x):
    if _has_sym(x):
        return it.to_str(x)
    return repr(x)


NATIVE_HANDLERS = {
    id(int): _h_int, id(str): _h_str, id(len): _h_len, id(type): _h_type, id(isinstance): _h_isinstance,
    id(bool): _h_bool, id(math.floor): _h_floor, id(math.ceil): _h_ceil, id(hex): _h_hex, id(range): _h_range,
    id(max): _h_max, id(min): _h_min, id(sum): _h_sum, id(any): _h_any, id(all): _h_all, id(filter): _h_filter,
    id(map): _h_map, id(sorted): _h_sorted, id(list): _h_list, id(tuple): _h_tuple, id(enumerate): _h_enumerate,
    id(zip): _h_zip, id(abs): _h_abs, id(pow): _h_pow, id(copy.deepcopy): _h_deepcopy, id(print): _h_print,
    id(set): _h_set, id(repr): _h_repr,
}
