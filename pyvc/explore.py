"""Path exploration (re-execution with decision prefixes) and obligation bookkeeping."""
import time
import z3
from . import sym
from .sym import Sym, Val, Unsupported, Infeasible, PathLimit, EngineError
from .symlist import PathEnd

PROVED, REFUTED, UNKNOWN = 'proved', 'refuted', 'unknown'


def model_value(m, e):
    """z3 model value of expression e -> python value"""
    v = m.eval(e, model_completion=True)
    s = v.sort()
    if s == z3.IntSort():
        return v.as_long()
    if s == z3.BoolSort():
        return z3.is_true(v)
    if s == z3.StringSort():
        return v.as_string()
    if s == Val:
        if v.decl().eq(Val.VI):
            return m.eval(v.arg(0), model_completion=True).as_long()
        if v.decl().eq(Val.VS):
            return m.eval(v.arg(0), model_completion=True).as_string()
        return None
    if isinstance(s, z3.BitVecSortRef):
        return v.as_long()
    return str(v)


class Obligation(object):
    def __init__(self, name):
        self.name = name
        self.paths = 0
        self.proved = 0
        self.refuted = []      # list of dict(inputs=..., note=...)
        self.unknown = []
        self.solver_s = 0.0
        self.backends = {}
        self.sample = None

    @property
    def verdict(self):
        if self.refuted:
            return REFUTED
        if self.unknown:
            return UNKNOWN
        return PROVED if self.paths else UNKNOWN

    def to_json(self):
        return dict(name=self.name, paths=self.paths, proved=self.proved, verdict=self.verdict,
                    refuted=self.refuted[:5], unknown=self.unknown[:5], solver_s=round(self.solver_s, 4),
                    backends=self.backends, sample=self.sample)


def _has_quantifier(e, strings_too=False):
    seen = set()
    todo = [e]
    while todo:
        x = todo.pop()
        if x.get_id() in seen:
            continue
        seen.add(x.get_id())
        if z3.is_quantifier(x):
            return True
        if strings_too and z3.is_seq(x):
            return True
        todo.extend(x.children())
    return False


class Path(object):
    def __init__(self, ex, prefix):
        self.ex = ex
        self.decisions = list(prefix)
        self.npre = len(prefix)
        self.pos = 0
        self.solver = z3.Solver()
        self.solver.set('timeout', ex.timeout_ms)
        self.quantified = False
        self.extractors = {}
        self.ground = z3.Solver()
        self.ground.set('timeout', 2000)
        self.pc = []
        self.inputs = {}          # name -> z3 expr (order of creation)
        self.counter = 0
        self.notes = []
        self.goverlay = {}
        self.axioms_seen = set()
        self.steps = 0
        self.concrete = False
        self.model = None

    # ---- symbols
    def _name(self, base):
        self.counter += 1
        return "%s!%d" % (base, self.counter)

    def fresh_int(self, base='i'):
        return Sym(z3.Int(self._name(base)))

    def fresh_bool(self, base='b'):
        return Sym(z3.Bool(self._name(base)))

    def fresh_str(self, base='s'):
        return Sym(z3.String(self._name(base)))

    def fresh_val(self, base='v'):
        return Sym(z3.Const(self._name(base), Val))

    def _input(self, name, e):
        if name in self.inputs:
            raise Unsupported("duplicate input name " + name)
        self.inputs[name] = e
        return Sym(e)

    def input_int(self, name, lo=None, hi=None):
        s = self._input(name, z3.Int(name))
        if lo is not None:
            self.assume(s.e >= lo)
        if hi is not None:
            self.assume(s.e <= hi)
        return s

    def input_word(self, name):
        return self.input_int(name, 0, sym.WORD - 1)

    def input_bool(self, name):
        return self._input(name, z3.Bool(name))

    def input_str(self, name):
        return self._input(name, z3.String(name))

    def input_val(self, name):
        return self._input(name, z3.Const(name, Val))

    def choice(self, name, options):
        """finite choice made by forking: returns one element of options (python values)"""
        options = list(options)
        if len(options) == 1:
            return options[0]
        idx = self.input_int(name, 0, len(options) - 1)
        lo, hi = 0, len(options) - 1
        while lo < hi:                      # binary search: log2(n) decisions per choice
            mid = (lo + hi) // 2
            if self.branch(idx.e <= mid):
                hi = mid
            else:
                lo = mid + 1
        return options[lo]

    # ---- path condition
    def assume(self, e, keep_model=False):
        if not keep_model:
            self.model = None
        if isinstance(e, Sym):
            e = e.e
        if isinstance(e, bool):
            if not e:
                raise Infeasible()
            return
        e = z3.simplify(e)
        if z3.is_true(e):
            return
        if z3.is_false(e):
            raise Infeasible()
        if not self.quantified and _has_quantifier(e):
            self.quantified = True
        if not _has_quantifier(e, True):
            self.ground.add(e)
        self.pc.append(e)
        self.solver.add(e)

    def entails_quick(self, e, ms=800):
        """entailment from the whole path condition under a small budget ("no" when undecided)"""
        e = z3.simplify(e)
        if z3.is_true(e):
            return True
        if z3.is_false(e):
            return False
        t0 = time.time()
        self.solver.set('timeout', ms)
        self.solver.push()
        self.solver.add(z3.Not(e))
        r = self.solver.check()
        self.solver.pop()
        self.solver.set('timeout', self.ex.timeout_ms)
        self.ex.solver_s += time.time() - t0
        self.ex.queries += 1
        return r == z3.unsat

    def entails_ground(self, e):
        """entailment from the quantifier-free, string-free part of the path condition only (a subset of the hypotheses, hence
        sound); used for the cheap arithmetic side questions of list abstractions, where the full context makes "no" answers slow"""
        e = z3.simplify(e)
        if z3.is_true(e):
            return True
        if z3.is_false(e):
            return False
        t0 = time.time()
        self.ground.push()
        self.ground.add(z3.Not(e))
        r = self.ground.check()
        self.ground.pop()
        self.ex.solver_s += time.time() - t0
        self.ex.queries += 1
        return r == z3.unsat

    def axiom(self, e):
        k = e.sexpr() if hasattr(e, 'sexpr') else str(e)
        if k in self.axioms_seen:
            return
        self.axioms_seen.add(k)
        self.model = None
        self.pc.append(e)
        self.solver.add(e)

    def note(self, msg):
        if msg not in self.notes:
            self.notes.append(msg)
        self.ex.notes.add(msg)

    def _check(self, e, feasibility=False):
        t0 = time.time()
        # feasibility of a branch under a quantified path condition: a satisfiability answer needs a model of the quantifiers,
        # which the solver rarely finds; a short budget is enough, "unknown" keeps the branch (see branch())
        quick = feasibility and self.quantified
        if quick:
            self.solver.set('timeout', min(self.ex.timeout_ms, 400))
        self.solver.push()
        self.solver.add(e)
        r = self.solver.check()
        m = self.solver.model() if r == z3.sat else None
        self.solver.pop()
        if quick:
            self.solver.set('timeout', self.ex.timeout_ms)
        self.ex.solver_s += time.time() - t0
        self.ex.queries += 1
        return r, m

    def entails(self, e):
        e = z3.simplify(e)
        if z3.is_true(e):
            return True
        if z3.is_false(e):
            return False
        r, _ = self._check(z3.Not(e))
        return r == z3.unsat

    def feasible(self):
        r = self.solver.check()
        return r != z3.unsat

    def branch(self, cond):
        if isinstance(cond, Sym):
            cond = cond.e
        if isinstance(cond, bool):
            return cond
        cond = z3.simplify(cond)
        if z3.is_true(cond):
            return True
        if z3.is_false(cond):
            return False
        self.steps += 1
        if self.steps > self.ex.max_steps:
            raise PathLimit("more than %d symbolic decisions on one path" % self.ex.max_steps)
        if self.pos < len(self.decisions):
            d = self.decisions[self.pos]
            self.pos += 1
            self.assume(cond if d else z3.Not(cond))
            return d
        # one side is known feasible from the cached model of the path condition
        side = None
        if self.model is not None:
            try:
                v = self.model.eval(cond, model_completion=True)
                if z3.is_true(v):
                    side = True
                elif z3.is_false(v):
                    side = False
            except z3.Z3Exception:
                side = None
        if side is None:
            rt, mt = self._check(cond, True)
            if rt == z3.unsat:
                can_t, can_f, mf = False, True, None
            else:
                rf, mf = self._check(z3.Not(cond), True)
                can_t, can_f = True, rf != z3.unsat
        elif side:
            mt = self.model
            rf, mf = self._check(z3.Not(cond), True)
            can_t, can_f = True, rf != z3.unsat
        else:
            mf = self.model
            rt, mt = self._check(cond, True)
            can_t, can_f = rt != z3.unsat, True
        if can_t and can_f:
            self.ex.schedule(self.decisions[:self.pos] + [False])
            d = True
        elif can_t:
            d = True
        elif can_f:
            d = False
        else:
            raise Infeasible()
        self.model = mt if d else mf
        self.decisions.append(d)
        self.pos += 1
        self.assume(cond if d else z3.Not(cond), keep_model=True)
        return d

    # ---- obligations
    def prove(self, name, claim, alts=(), info=None):
        """claim: Sym-bool / bool / z3 expr. alts: equivalent renderings of the same claim."""
        ob = self.ex.obligation(name)
        ob.paths += 1
        claims = [claim] + list(alts)
        es = []
        for c in claims:
            if isinstance(c, Sym):
                c = c.e
            if isinstance(c, bool):
                c = z3.BoolVal(c)
            es.append(c)
        if ob.sample is None:
            try:
                s = z3.Solver()
                s.add(*self.pc)
                s.add(z3.Not(es[0]))
                txt = s.sexpr()
                ob.sample = txt if len(txt) < 4000 else txt[:4000] + " ...(truncated)"
            except Exception:
                pass
        verdict = UNKNOWN
        model = None
        t0 = time.time()
        for k, e in enumerate(es):
            se = z3.simplify(e)
            if z3.is_true(se):
                verdict = PROVED
                backend = 'simplifier'
                break
            r, m = self._check(z3.Not(e))
            backend = 'z3' if k == 0 else 'z3-alt%d' % k
            if r == z3.unsat:
                verdict = PROVED
                break
            if r == z3.sat and model is None:
                model = m
                verdict = REFUTED
                if len(es) == 1:
                    break
        ob.solver_s += time.time() - t0
        if verdict == PROVED:
            ob.proved += 1
            ob.backends[backend] = ob.backends.get(backend, 0) + 1
            return True
        rec = dict(path=list(self.decisions[:self.pos]), info=info, notes=list(self.notes))
        if verdict == REFUTED:
            rec['inputs'] = dict((n, model_value(model, e)) for n, e in self.inputs.items())
            for n, fn in self.extractors.items():
                # inputs of symbolic size (lists): the case reads their contents off the model
                try:
                    rec['inputs'][n] = fn(model)
                except Exception as e:      # noqa  (an extractor must not hide the refutation)
                    rec['inputs'][n] = "extractor failed: %r" % (e,)
            ob.refuted.append(rec)
        else:
            ob.unknown.append(rec)
        return False

    def fail(self, name, info=None):
        """an obligation violated on this (feasible) path regardless of data"""
        return self.prove(name, z3.BoolVal(False), info=info)

    def resource_pow(self, a, b, m):
        if m is not None or not self.ex.check_resources:
            return
        # big-integer work of a ** b is exponential in the bit size of b
        ea = sym._as_int_expr(a)
        eb = sym._as_int_expr(b)
        self.prove('resource:pow-exponent-bounded',
                   z3.Or(eb <= 65536, z3.And(ea <= 1, ea >= -1)),
                   info="a ** b evaluated with unbounded exponent")
        if isinstance(b, int) and not isinstance(a, Sym) and b > 65536 and abs(a) > 1:
            raise Unsupported("refusing to evaluate %d ** %d" % (a, b))


class Explorer(object):
    def __init__(self, name, run, timeout_ms=10000, max_paths=4000, max_steps=400, check_resources=False, budget_s=None):
        self.budget_s = budget_s
        self.name = name
        self.run = run
        self.timeout_ms = timeout_ms
        self.max_paths = max_paths
        self.max_steps = max_steps
        self.check_resources = check_resources
        self.work = []
        self.obligations = {}
        self.paths = 0
        self.infeasible = 0
        self.errors = []
        self.notes = set()
        self.solver_s = 0.0
        self.queries = 0
        self.wall_s = 0.0

    def schedule(self, prefix):
        self.work.append(prefix)

    def obligation(self, name):
        full = self.name + "::" + name
        ob = self.obligations.get(full)
        if ob is None:
            ob = self.obligations[full] = Obligation(full)
        return ob

    def explore(self):
        t0 = time.time()
        self.work = [[]]
        while self.work:
            prefix = self.work.pop()
            if self.paths >= self.max_paths:
                self.errors.append("path limit %d reached" % self.max_paths)
                break
            if self.budget_s is not None and time.time() - t0 > self.budget_s:
                self.errors.append("time budget of %d s for this case used up after %d paths (%d prefixes left)"
                                   % (self.budget_s, self.paths, len(self.work) + 1))
                break
            p = Path(self, prefix)
            sym.set_cur(p)
            try:
                self.run(p)
                self.paths += 1
            except PathEnd:
                self.paths += 1
            except Infeasible:
                self.infeasible += 1
            except PathLimit as e:
                self.paths += 1
                self.errors.append("path-limit: %s" % e)
            except Unsupported as e:
                self.paths += 1
                import traceback
                tb = traceback.extract_tb(e.__traceback__)
                where = "; ".join("%s:%d" % (f.name, f.lineno) for f in tb[-3:])
                self.errors.append("unsupported: %s [%s]" % (e, where))
            finally:
                sym.set_cur(None)
        self.wall_s = time.time() - t0
        return self

    def summary(self):
        return dict(name=self.name, paths=self.paths, infeasible=self.infeasible, errors=self.errors[:10],
                    n_errors=len(self.errors), notes=sorted(self.notes), solver_s=round(self.solver_s, 3),
                    queries=self.queries, wall_s=round(self.wall_s, 3),
                    obligations=[o.to_json() for o in self.obligations.values()])
