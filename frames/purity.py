"""Purity scan for C13: sources of run-to-run variation (hash seeds, object addresses, clock, process ids, directory order)
and iteration over set-typed values, found on the real ASTs of the functions reachable from the per-block entry points."""
import ast

NONDET_CALLS = {'hash', 'id', 'dtimer', 'getpid', 'listdir', 'urandom', 'uuid1', 'uuid4', 'time', 'perf_counter', 'process_time',
                'random', 'randint', 'choice', 'shuffle', 'sample', 'now', 'today', 'getrusage', 'scandir', 'walk', 'glob', 'mkdtemp', 'mkstemp'}
SET_MAKERS = {'set', 'frozenset'}
SET_METHODS = {'union', 'difference', 'intersection', 'symmetric_difference', 'copy'}
ORDER_INSENSITIVE = {'sorted', 'len', 'min', 'max', 'sum', 'any', 'all', 'set', 'frozenset', 'bool', 'issubset', 'issuperset', 'isdisjoint'}
ITER_CONSUMERS = {'list', 'tuple', 'enumerate', 'zip', 'map', 'filter', 'iter', 'next', 'reversed', 'join', 'extend', 'deque',
                  'combinations', 'permutations', 'product', 'chain', 'combinations_with_replacement', 'islice', 'accumulate', 'reduce', 'OrderedDict', 'dict'}


def is_set_expr(e, setvars):
    if isinstance(e, (ast.Set, ast.SetComp)):
        return True
    if isinstance(e, ast.Call):
        f = e.func
        if isinstance(f, ast.Name) and f.id in SET_MAKERS:
            return True
        if isinstance(f, ast.Attribute) and f.attr in SET_METHODS and is_set_expr(f.value, setvars):
            return True
        if isinstance(f, ast.Attribute) and f.attr == 'keys':
            return False
    if isinstance(e, ast.Name) and e.id in setvars:
        return True
    if isinstance(e, ast.BinOp) and isinstance(e.op, (ast.Sub, ast.BitOr, ast.BitAnd, ast.BitXor)):
        def keysish(x):
            return isinstance(x, ast.Call) and isinstance(x.func, ast.Attribute) and x.func.attr in ('keys', 'items')
        if is_set_expr(e.left, setvars) or is_set_expr(e.right, setvars) or keysish(e.left) or keysish(e.right):
            return True
    if isinstance(e, ast.Attribute) and isinstance(e.value, ast.Name) and e.value.id == 'self' and ('self.' + e.attr) in setvars:
        return True
    return False


def set_vars(fn):
    """names assigned (anywhere in the function) from a set-typed expression, or annotated as sets"""
    sv = set()
    for a in fn.args.args + fn.args.kwonlyargs:
        if a.annotation is not None and 'Set' in ast.unparse(a.annotation):
            sv.add(a.arg)
    changed = True
    while changed:
        changed = False
        for n in ast.walk(fn):
            if isinstance(n, ast.Assign) and is_set_expr(n.value, sv):
                for t in n.targets:
                    if isinstance(t, ast.Name) and t.id not in sv:
                        sv.add(t.id)
                        changed = True
                    if isinstance(t, ast.Attribute) and isinstance(t.value, ast.Name) and t.value.id == 'self' and ('self.' + t.attr) not in sv:
                        sv.add('self.' + t.attr)
                        changed = True
            if isinstance(n, ast.AnnAssign) and n.annotation is not None and 'Set' in ast.unparse(n.annotation) and isinstance(n.target, ast.Name):
                if n.target.id not in sv:
                    sv.add(n.target.id)
                    changed = True
    return sv


def scan_function(fn):
    """returns (nondeterminism call sites, ordered-iteration-over-set sites); each site = (lineno, source)"""
    sv = set_vars(fn)
    nondet, setiter = [], []
    parents = {}
    for p in ast.walk(fn):
        for c in ast.iter_child_nodes(p):
            parents[c] = p
    for n in ast.walk(fn):
        if isinstance(n, ast.Call):
            f = n.func
            nm = f.id if isinstance(f, ast.Name) else (f.attr if isinstance(f, ast.Attribute) else None)
            if nm in NONDET_CALLS:
                if nm == 'time' and not (isinstance(f, ast.Attribute) and isinstance(f.value, ast.Name) and f.value.id == 'time'):
                    pass
                else:
                    nondet.append((n.lineno, ast.unparse(n)[:80]))
            # order-sensitive consumers of a set
            if nm in ITER_CONSUMERS:
                args = list(n.args)
                if isinstance(f, ast.Attribute) and nm == 'join':
                    pass
                for a in args:
                    if is_set_expr(a, sv):
                        par = parents.get(n)
                        # list(S) directly inside sorted(...) / len(...) etc. is fine
                        if isinstance(par, ast.Call) and ((isinstance(par.func, ast.Name) and par.func.id in ORDER_INSENSITIVE) or
                                                          (isinstance(par.func, ast.Attribute) and par.func.attr in ORDER_INSENSITIVE)):
                            continue
                        setiter.append((n.lineno, ast.unparse(n)[:100]))
            if isinstance(f, ast.Attribute) and f.attr == 'pop' and not n.args and is_set_expr(f.value, sv):
                setiter.append((n.lineno, ast.unparse(n)[:100]))
        elif isinstance(n, (ast.For, ast.AsyncFor)):
            if is_set_expr(n.iter, sv):
                setiter.append((n.lineno, "for %s in %s" % (ast.unparse(n.target), ast.unparse(n.iter)[:80])))
        elif isinstance(n, (ast.ListComp, ast.GeneratorExp, ast.DictComp)):
            for g in n.generators:
                if is_set_expr(g.iter, sv):
                    par = parents.get(n)
                    if isinstance(par, ast.Call) and ((isinstance(par.func, ast.Name) and par.func.id in ORDER_INSENSITIVE) or
                                                      (isinstance(par.func, ast.Attribute) and par.func.attr in ORDER_INSENSITIVE)):
                        continue
                    setiter.append((n.lineno, "[... for %s in %s]" % (ast.unparse(g.target), ast.unparse(g.iter)[:80])))
        elif isinstance(n, ast.Starred) and is_set_expr(n.value, sv):
            setiter.append((n.lineno, "*" + ast.unparse(n.value)[:80]))
    return nondet, setiter


# ---------------------------------------------------------------------------------------------------------------------------------
# clock values must not reach a decision; memoised functions must not hide module state
CLOCK_CALLS = {'dtimer', 'getrusage', 'perf_counter', 'process_time', 'monotonic', 'time_ns', 'now'}


def _call_name(n):
    f = n.func
    return f.id if isinstance(f, ast.Name) else (f.attr if isinstance(f, ast.Attribute) else None)


def _mentions(e, names):
    return any((isinstance(x, ast.Name) and x.id in names) or (isinstance(x, ast.Attribute) and ast.unparse(x) in names) for x in ast.walk(e))


def _is_clock_call(n):
    if not isinstance(n, ast.Call):
        return False
    nm = _call_name(n)
    if nm in CLOCK_CALLS:
        return True
    return nm == 'time' and isinstance(n.func, ast.Attribute) and isinstance(n.func.value, ast.Name) and n.func.value.id == 'time'


def clock_taint(funcs):
    """funcs: {key: ast.FunctionDef}.  Returns (tainted names per function, positions of the returned tuple that carry a clock value
    per function name, sites where a clock value is compared or tested).  A name is tainted when it is assigned from a clock call, from
    an expression over tainted names, or from the tainted position of the tuple returned by a function of the analysis (by name)."""
    ret_pos = {}                       # function name -> set of tuple positions (or {None} = the whole value)
    tainted = dict((k, set()) for k in funcs)
    changed = True

    def expr_tainted(e, names):
        if any(_is_clock_call(x) for x in ast.walk(e)):
            return True
        if _mentions(e, names):
            return True
        return False
    rounds = 0
    while changed and rounds < 8:
        changed = False
        rounds += 1
        for k, fn in funcs.items():
            names = tainted[k]
            for n in ast.walk(fn):
                targets, value = None, None
                if isinstance(n, ast.Assign):
                    targets, value = n.targets, n.value
                elif isinstance(n, ast.AugAssign):
                    targets, value = [n.target], n.value
                if targets is None:
                    continue
                new = set()
                if expr_tainted(value, names):
                    # whole value tainted: a call result is only tainted where the callee says so
                    if isinstance(value, ast.Call) and not _is_clock_call(value) and not _mentions(value, names) and _call_name(value) not in ret_pos:
                        pass
                    else:
                        for t in targets:
                            if isinstance(t, (ast.Name, ast.Attribute)):
                                new.add(ast.unparse(t) if isinstance(t, ast.Attribute) else t.id)
                if isinstance(value, ast.Call) and _call_name(value) in ret_pos:
                    pos = ret_pos[_call_name(value)]
                    for t in targets:
                        if isinstance(t, ast.Tuple):
                            for i, el in enumerate(t.elts):
                                if (i in pos or None in pos) and isinstance(el, ast.Name):
                                    new.add(el.id)
                        elif isinstance(t, ast.Name) and None in pos:
                            new.add(t.id)
                if not new <= names:
                    names |= new
                    changed = True
            # what the function returns
            pos = ret_pos.setdefault(fn.name, set())
            for n in ast.walk(fn):
                if isinstance(n, ast.Return) and n.value is not None:
                    if isinstance(n.value, ast.Tuple):
                        for i, el in enumerate(n.value.elts):
                            if expr_tainted(el, names) and i not in pos:
                                pos.add(i)
                                changed = True
                    elif expr_tainted(n.value, names) and not isinstance(n.value, ast.Call) and None not in pos:
                        pos.add(None)
                        changed = True
    sites = []
    for k, fn in funcs.items():
        names = tainted[k]
        if not names:
            continue
        for n in ast.walk(fn):
            test = None
            if isinstance(n, (ast.If, ast.While, ast.IfExp, ast.Assert)):
                test = n.test
            elif isinstance(n, ast.Compare):
                test = n
            if test is not None and _mentions(test, names):
                sites.append((k, n.lineno, ast.unparse(test)[:100]))
    return tainted, ret_pos, sorted(set(sites))


def memoised(fn):
    """decorators that keep results between calls"""
    out = []
    for d in fn.decorator_list:
        txt = ast.unparse(d)
        if any(w in txt for w in ('lru_cache', 'functools.cache', 'cached_property', 'memoize', 'memoise')) or txt in ('cache',):
            out.append(txt)
    return out
