"""Effect / frame analysis of module-level state (tier E of DESIGN section 4, C12 and C13).

For every function of the analysed modules the real AST gives
   RBW(f) : module globals that MAY be read before they are definitely written on some path from the entry of f
   MW(f)  : module globals that are DEFINITELY written on every normal exit of f
computed flow-sensitively inside bodies and with call summaries across the call graph (fixpoint).  A per-block entry
point E is history independent if every global in RBW(E) is (a) never written by any function (a constant), or (b)
justified by a reviewed class whose side condition is checked mechanically (option mirror, accumulator) -- see
contracts/c12.py.  This is a sufficient condition: flows are over-approximated, never under-approximated, except for the
listed limits (dynamic attribute access, exec/eval, aliasing of a global list through a local name).
"""
import ast
import os

MUTATORS = {'append', 'extend', 'insert', 'pop', 'remove', 'clear', 'update', 'add', 'discard', 'sort', 'reverse', 'setdefault',
            'popitem', 'difference_update', 'intersection_update', 'symmetric_difference_update', '__setitem__', '__delitem__',
            '__next__', 'send', 'seek', 'write', 'writelines', 'truncate', 'appendleft', 'popleft', 'rotate', 'cache_clear'}


class ModuleInfo(object):
    def __init__(self, name, path):
        self.name = name
        self.path = path
        with open(path) as f:
            self.tree = ast.parse(f.read(), path)
        self.globals = set()          # names bound at module level (data)
        self.functions = {}           # qualname -> FunctionDef (top-level functions and methods "Class.meth")
        self.imports = {}             # local alias -> module name   (import a.b as x  /  import a.b -> 'a')
        self.from_imports = {}        # local name -> (module, name)
        self.classes = set()
        self._scan()

    def _scan(self):
        for st in self.tree.body:
            if isinstance(st, ast.FunctionDef):
                self.functions[st.name] = st
            elif isinstance(st, ast.ClassDef):
                self.classes.add(st.name)
                for b in st.body:
                    if isinstance(b, ast.FunctionDef):
                        self.functions[st.name + '.' + b.name] = b
            elif isinstance(st, (ast.Import,)):
                for a in st.names:
                    if a.asname:
                        self.imports[a.asname] = a.name
                    else:
                        self.imports[a.name.split('.')[0]] = a.name.split('.')[0]
            elif isinstance(st, ast.ImportFrom):
                for a in st.names:
                    self.from_imports[a.asname or a.name] = (st.module, a.name)
            else:
                for n in ast.walk(st):
                    if isinstance(n, ast.Name) and isinstance(n.ctx, ast.Store):
                        self.globals.add(n.id)
                    elif isinstance(n, ast.Global):
                        self.globals.update(n.names)
        for f in self.functions.values():
            for n in ast.walk(f):
                if isinstance(n, ast.Global):
                    self.globals.update(n.names)
        self.globals -= set(self.functions) | self.classes


def local_names(fn):
    """names local to the function (parameters and assigned names that are not declared global)"""
    declared = set()
    loc = set()
    a = fn.args
    for x in a.posonlyargs + a.args + a.kwonlyargs:
        loc.add(x.arg)
    if a.vararg:
        loc.add(a.vararg.arg)
    if a.kwarg:
        loc.add(a.kwarg.arg)
    for n in ast.walk(fn):
        if isinstance(n, ast.Global):
            declared.update(n.names)
    for n in ast.walk(fn):
        if isinstance(n, ast.Name) and isinstance(n.ctx, (ast.Store, ast.Del)):
            loc.add(n.id)
        elif isinstance(n, (ast.FunctionDef, ast.ClassDef)) and n is not fn:
            loc.add(n.name)
        elif isinstance(n, ast.ExceptHandler) and n.name:
            loc.add(n.name)
        elif isinstance(n, (ast.Import, ast.ImportFrom)):
            for al in n.names:
                loc.add((al.asname or al.name).split('.')[0])
        elif isinstance(n, ast.arg):
            loc.add(n.arg)
    return loc - declared, declared


class Analysis(object):
    def __init__(self, repo, modules):
        """modules: dict name -> relative path"""
        self.mods = {}
        for name, rel in modules.items():
            self.mods[name] = ModuleInfo(name, os.path.join(repo, rel))
        self.funcs = {}     # (module, qualname) -> FunctionDef
        for m in self.mods.values():
            for q, f in m.functions.items():
                self.funcs[(m.name, q)] = f
        self.all_globals = set((m.name, g) for m in self.mods.values() for g in m.globals)
        self.RBW = dict((k, set()) for k in self.funcs)
        self.MW = dict((k, set(self.all_globals)) for k in self.funcs)
        self.write_sites = {}     # global -> list of (func key, lineno, kind, rhs-source)
        self.read_sites = {}      # global -> list of (func key, lineno, context)
        self.calls = dict((k, set()) for k in self.funcs)
        self.unresolved = dict((k, set()) for k in self.funcs)
        self._locals = {}
        for k, f in self.funcs.items():
            self._locals[k] = local_names(f)
        self._collect_sites()
        self._fixpoint()

    # ---------------------------------------------------------------- resolution
    def resolve_global(self, key, node):
        """node: Name or Attribute -> (module, global) or None"""
        mod = self.mods[key[0]]
        loc, declared = self._locals[key]
        if isinstance(node, ast.Name):
            if node.id in loc:
                return None
            if node.id in mod.globals:
                return (mod.name, node.id)
            if node.id in mod.from_imports:
                m2, n2 = mod.from_imports[node.id]
                if m2 in self.mods and n2 in self.mods[m2].globals:
                    return (m2, n2)
            return None
        if isinstance(node, ast.Attribute) and isinstance(node.value, ast.Name):
            base = node.value.id
            if base in loc:
                return None
            m2 = mod.imports.get(base)
            if m2 in self.mods and node.attr in self.mods[m2].globals:
                return (m2, node.attr)
        if isinstance(node, ast.Attribute) and isinstance(node.value, ast.Attribute):
            # a.b.c  (import a.b ; a.b.c)
            parts = []
            n = node
            while isinstance(n, ast.Attribute):
                parts.append(n.attr)
                n = n.value
            if isinstance(n, ast.Name):
                parts.append(n.id)
                parts.reverse()
                m2 = '.'.join(parts[:-1])
                if m2 in self.mods and parts[-1] in self.mods[m2].globals:
                    return (m2, parts[-1])
        return None

    def resolve_call(self, key, node):
        """Call node -> function key or None"""
        mod = self.mods[key[0]]
        loc, _ = self._locals[key]
        f = node.func
        if isinstance(f, ast.Name):
            if f.id in loc:
                return None
            if (mod.name, f.id) in self.funcs:
                return (mod.name, f.id)
            if f.id in mod.from_imports:
                m2, n2 = mod.from_imports[f.id]
                if (m2, n2) in self.funcs:
                    return (m2, n2)
            if f.id in mod.classes and (mod.name, f.id + '.__init__') in self.funcs:
                return (mod.name, f.id + '.__init__')
            return None
        if isinstance(f, ast.Attribute):
            if isinstance(f.value, ast.Name):
                base = f.value.id
                if base not in loc:
                    m2 = mod.imports.get(base)
                    if m2 in self.mods and (m2, f.attr) in self.funcs:
                        return (m2, f.attr)
                if base == 'self' and '.' in key[1]:
                    q = key[1].split('.')[0] + '.' + f.attr
                    if (key[0], q) in self.funcs:
                        return (key[0], q)
            elif isinstance(f.value, ast.Attribute):
                parts = []
                n = f
                while isinstance(n, ast.Attribute):
                    parts.append(n.attr)
                    n = n.value
                if isinstance(n, ast.Name):
                    parts.append(n.id)
                    parts.reverse()
                    m2 = '.'.join(parts[:-1])
                    if (m2, parts[-1]) in self.funcs:
                        return (m2, parts[-1])
        return None

    # ---------------------------------------------------------------- sites
    def _collect_sites(self):
        for key, fn in self.funcs.items():
            for n in ast.walk(fn):
                if isinstance(n, (ast.Assign, ast.AugAssign, ast.AnnAssign)):
                    targets = n.targets if isinstance(n, ast.Assign) else [n.target]
                    for t in targets:
                        for tn in ([t] if not isinstance(t, (ast.Tuple, ast.List)) else t.elts):
                            g = self.resolve_global(key, tn) if isinstance(tn, (ast.Name, ast.Attribute)) else None
                            if g and (isinstance(tn, ast.Attribute) or tn.id in self._locals[key][1]):
                                kind = 'aug' if isinstance(n, ast.AugAssign) else 'assign'
                                rhs = ast.unparse(n.value) if getattr(n, 'value', None) is not None else ''
                                self.write_sites.setdefault(g, []).append((key, n.lineno, kind, rhs))
                            if isinstance(tn, ast.Subscript):
                                g2 = self.resolve_global(key, tn.value) if isinstance(tn.value, (ast.Name, ast.Attribute)) else None
                                if g2:
                                    self.write_sites.setdefault(g2, []).append((key, n.lineno, 'mutate', 'subscript-store'))
                elif isinstance(n, ast.Delete):
                    for t in n.targets:
                        if isinstance(t, ast.Subscript) and isinstance(t.value, (ast.Name, ast.Attribute)):
                            g2 = self.resolve_global(key, t.value)
                            if g2:
                                self.write_sites.setdefault(g2, []).append((key, n.lineno, 'mutate', 'del-subscript'))
                elif isinstance(n, ast.Call) and isinstance(n.func, ast.Name) and n.func.id in ('next', 'setattr', 'delattr') and n.args \
                        and isinstance(n.args[0], (ast.Name, ast.Attribute)):
                    # next(g) advances a module-level iterator/generator: a mutation of g
                    g2 = self.resolve_global(key, n.args[0])
                    if g2:
                        self.write_sites.setdefault(g2, []).append((key, n.lineno, 'mutate', n.func.id))
                elif isinstance(n, ast.Call) and isinstance(n.func, ast.Attribute) and n.func.attr in MUTATORS:
                    if isinstance(n.func.value, (ast.Name, ast.Attribute)):
                        g2 = self.resolve_global(key, n.func.value)
                        if g2:
                            self.write_sites.setdefault(g2, []).append((key, n.lineno, 'mutate', n.func.attr))

    # ---------------------------------------------------------------- flow analysis
    def _fixpoint(self):
        changed = True
        rounds = 0
        while changed and rounds < 60:
            changed = False
            rounds += 1
            for key, fn in self.funcs.items():
                r, w = self._analyse(key, fn)
                if r != self.RBW[key] or w != self.MW[key]:
                    self.RBW[key], self.MW[key] = r, w
                    changed = True
        self.rounds = rounds

    def _analyse(self, key, fn):
        self._R = set()
        self._exits = []
        W = self._block(key, fn.body, set())
        if W is not None:
            self._exits.append(W)
        mw = set.intersection(*self._exits) if self._exits else set(self.all_globals)
        return set(self._R), mw

    def _read(self, key, g, W, node):
        if g not in W:
            self._R.add(g)
        self.read_sites.setdefault(g, set()).add((key, getattr(node, 'lineno', 0)))

    def _expr(self, key, e, W):
        """evaluate expression effects in evaluation order (approximately); may extend W through calls"""
        if e is None:
            return W
        if isinstance(e, (ast.Lambda,)):
            # body runs later (or never): its reads are possible at any time -> treated as reads now, no writes
            self._expr(key, e.body, set(W))
            return W
        if isinstance(e, (ast.ListComp, ast.SetComp, ast.GeneratorExp, ast.DictComp)):
            W2 = set(W)
            for g in e.generators:
                W2 = self._expr(key, g.iter, W2)
                for c in g.ifs:
                    self._expr(key, c, set(W2))
            if isinstance(e, ast.DictComp):
                self._expr(key, e.key, set(W2))
                self._expr(key, e.value, set(W2))
            else:
                self._expr(key, e.elt, set(W2))
            return W
        if isinstance(e, ast.BoolOp):
            W = self._expr(key, e.values[0], W)
            for v in e.values[1:]:
                self._expr(key, v, set(W))
            return W
        if isinstance(e, ast.IfExp):
            W = self._expr(key, e.test, W)
            a = self._expr(key, e.body, set(W))
            b = self._expr(key, e.orelse, set(W))
            return a & b
        if isinstance(e, ast.Call):
            if isinstance(e.func, ast.Attribute):
                W = self._expr(key, e.func.value, W) if self.resolve_global(key, e.func) is None and self.resolve_call(key, e) is None else W
                g = self.resolve_global(key, e.func.value) if isinstance(e.func.value, (ast.Name, ast.Attribute)) else None
                if g:
                    self._read(key, g, W, e)
            elif isinstance(e.func, ast.Name):
                g = self.resolve_global(key, e.func)
                if g:
                    self._read(key, g, W, e)
            else:
                W = self._expr(key, e.func, W)
            for a in e.args:
                W = self._expr(key, a.value if isinstance(a, ast.Starred) else a, W)
            for k in e.keywords:
                W = self._expr(key, k.value, W)
            callee = self.resolve_call(key, e)
            if callee is not None:
                self.calls[key].add(callee)
                for g in self.RBW[callee]:
                    if g not in W:
                        self._R.add(g)
                W = W | self.MW[callee]
            else:
                nm = ast.unparse(e.func)
                self.unresolved[key].add(nm)
                if isinstance(e.func, ast.Attribute):
                    # method call on a receiver of unknown class: any method of that name in the analysed modules may run
                    for k2 in self.funcs:
                        if '.' in k2[1] and k2[1].split('.')[1] == e.func.attr:
                            self.calls[key].add(k2)
                            for g in self.RBW[k2]:
                                if g not in W:
                                    self._R.add(g)
            return W
        if isinstance(e, (ast.Name, ast.Attribute)):
            g = self.resolve_global(key, e)
            if g is not None:
                if isinstance(e.ctx, ast.Load):
                    self._read(key, g, W, e)
                return W
            if isinstance(e, ast.Attribute):
                return self._expr(key, e.value, W)
            return W
        for c in ast.iter_child_nodes(e):
            if isinstance(c, ast.expr):
                W = self._expr(key, c, W)
            elif isinstance(c, (ast.comprehension,)):
                pass
            elif isinstance(c, ast.keyword):
                W = self._expr(key, c.value, W)
        return W

    def _store(self, key, t, W):
        if isinstance(t, (ast.Tuple, ast.List)):
            for x in t.elts:
                W = self._store(key, x.value if isinstance(x, ast.Starred) else x, W)
            return W
        if isinstance(t, ast.Name):
            g = self.resolve_global(key, t)
            if g is not None and t.id in self._locals[key][1]:
                return W | {g}
            return W
        if isinstance(t, ast.Attribute):
            g = self.resolve_global(key, t)
            if g is not None:
                return W | {g}
            return self._expr(key, t.value, W)
        if isinstance(t, ast.Subscript):
            W = self._expr(key, t.value, W)      # the container is read (mutation, not a definite write)
            W = self._expr(key, t.slice, W)
            return W
        return W

    def _block(self, key, stmts, W):
        """returns W at normal fall-through, or None if control never falls through"""
        for st in stmts:
            if W is None:
                return None
            W = self._stmt(key, st, W)
        return W

    def _stmt(self, key, st, W):
        if isinstance(st, ast.Expr):
            return self._expr(key, st.value, W)
        if isinstance(st, ast.Assign):
            W = self._expr(key, st.value, W)
            for t in st.targets:
                W = self._store(key, t, W)
            return W
        if isinstance(st, ast.AnnAssign):
            if st.value is not None:
                W = self._expr(key, st.value, W)
                W = self._store(key, st.target, W)
            return W
        if isinstance(st, ast.AugAssign):
            t = st.target
            if isinstance(t, (ast.Name, ast.Attribute)):
                g = self.resolve_global(key, t)
                if g is not None and (isinstance(t, ast.Attribute) or t.id in self._locals[key][1]):
                    self._read(key, g, W, st)
            else:
                W = self._expr(key, t, W)
            W = self._expr(key, st.value, W)
            return self._store(key, t, W)
        if isinstance(st, ast.Return):
            W = self._expr(key, st.value, W)
            self._exits.append(W)
            return None
        if isinstance(st, ast.Raise):
            self._expr(key, st.exc, W)
            return None
        if isinstance(st, ast.If):
            W = self._expr(key, st.test, W)
            a = self._block(key, st.body, set(W))
            b = self._block(key, st.orelse, set(W))
            if a is None:
                return b
            if b is None:
                return a
            return a & b
        if isinstance(st, (ast.For, ast.While)):
            if isinstance(st, ast.For):
                W = self._expr(key, st.iter, W)
                W = self._store(key, st.target, W)
            else:
                W = self._expr(key, st.test, W)
            self._block(key, st.body, set(W))
            # second pass: reads at the top of the body may follow writes at its end -- but those writes are not definite
            self._block(key, st.orelse, set(W))
            return W
        if isinstance(st, ast.Try):
            a = self._block(key, st.body, set(W))
            outs = []
            for h in st.handlers:
                # the exception may have been raised anywhere in the body: only W (before the try) is definite
                outs.append(self._block(key, h.body, set(W)))
            if a is not None:
                a = self._block(key, st.orelse, set(a))
            outs.append(a)
            live = [o for o in outs if o is not None]
            if not live:
                W2 = None
            else:
                W2 = set.intersection(*live)
            if st.finalbody:
                W3 = self._block(key, st.finalbody, set(W))
                if W2 is not None and W3 is not None:
                    W2 = W2 | (W3 - W)
            return W2
        if isinstance(st, ast.With):
            for it in st.items:
                W = self._expr(key, it.context_expr, W)
            return self._block(key, st.body, W)
        if isinstance(st, ast.Assert):
            self._expr(key, st.test, W)
            return W
        if isinstance(st, ast.Delete):
            for t in st.targets:
                W = self._expr(key, t.value if isinstance(t, ast.Subscript) else t, W)
            return W
        if isinstance(st, (ast.FunctionDef, ast.ClassDef)):
            # nested definition: its body may run later; count its reads conservatively
            if isinstance(st, ast.FunctionDef):
                self._block(key, st.body, set(W))
            return W
        return W

    # ---------------------------------------------------------------- queries
    def reachable(self, entry):
        seen, todo = set(), [entry]
        while todo:
            k = todo.pop()
            if k in seen:
                continue
            seen.add(k)
            todo.extend(self.calls.get(k, ()))
        return seen

    def written_anywhere(self, g, within=None):
        return [s for s in self.write_sites.get(g, []) if within is None or s[0] in within]
