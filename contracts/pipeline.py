"""Native driver of the real optimizer pipeline (greedy back end) for the bounded tiers and native replays."""
import contextlib
import io
import os
import shutil
import signal
import tempfile
from argparse import ArgumentParser

from . import common
from .common import go, constants
import gasol_asm
from global_params.options import OptimizationParams
import global_params.paths as paths

_SPLIT0 = set(constants.split_block)


class Timeout(BaseException):
    pass


def _alarm(sig, frm):
    raise Timeout()


def make_params(argv):
    ap = ArgumentParser()
    gasol_asm.options_gasol(ap)
    ns = ap.parse_args(argv)
    p = OptimizationParams()
    p.parse_args(ns)
    return p


def reset_sticky_globals():
    constants.split_block = set(_SPLIT0)
    go.split_sto = False


def plain_text(instrs):
    """corpus tokens ('PUSH 5', 'ADD') -> the CLI's plain format"""
    out = []
    for t in instrs:
        if t.startswith('PUSH ') and len(t.split()) == 2:
            v = t.split()[1]
            n = max(1, (len(v.lstrip('0')) + 1) // 2) if v.lstrip('0') else 1
            out.append("PUSH%d 0x%s" % (n, v))
        else:
            out.append(t)
    return ' '.join(out)


def run_cli(text, opts=(), timeout=60, fmt='-bl', extra_files=None, infile=None):
    """run execute_gasol on one plain-text input in a scratch directory; returns dict(ok, exc, output, log, seconds, timed_out)"""
    import time
    d = tempfile.mkdtemp(prefix='gasolrun-')
    cwd = os.getcwd()
    res = dict(ok=False, exc=None, output=None, timed_out=False, log=None)
    old = signal.signal(signal.SIGALRM, _alarm)
    t0 = time.time()
    try:
        os.chdir(d)
        infile = infile or ('in.txt' if fmt == '-bl' else 'in.json_solc')
        with open(infile, 'w') as f:
            f.write(text + ("\n" if fmt == '-bl' else ""))
        for fn, content in (extra_files or {}).items():
            with open(fn, 'w') as f:
                f.write(content)
        reset_sticky_globals()
        gasol_asm.init()
        params = make_params([infile] + ([fmt] if fmt else []) + ['-greedy'] + list(opts))
        buf = io.StringIO()
        signal.alarm(timeout)
        try:
            with contextlib.redirect_stdout(buf), contextlib.redirect_stderr(buf):
                gasol_asm.execute_gasol(params)
            res['ok'] = True
        except Timeout:
            res['timed_out'] = True
        except SystemExit:
            res['ok'] = True
        except BaseException as e:
            res['exc'] = "%s: %s" % (type(e).__name__, e)
        finally:
            signal.alarm(0)
        res['stdout'] = buf.getvalue()
        res['csv'] = {}
        for fn_ in sorted(os.listdir(d)):
            if fn_.endswith('.csv'):
                with open(os.path.join(d, fn_)) as f:
                    res['csv'][fn_] = f.read()
        res['files'] = sorted(os.listdir(d))
        outs = [f for f in os.listdir(d) if 'optimized' in f]
        if outs:
            with open(os.path.join(d, outs[0])) as f:
                res['output'] = f.read()
        lg = [f for f in os.listdir(d) if f.endswith('.log')]
        if lg:
            with open(os.path.join(d, lg[0])) as f:
                res['log'] = f.read()
    finally:
        signal.signal(signal.SIGALRM, old)
        os.chdir(cwd)
        shutil.rmtree(d, ignore_errors=True)
        try:
            if paths.gasol_path and paths.gasol_path.startswith('/tmp/gasol_'):
                shutil.rmtree(paths.gasol_path, ignore_errors=True)
        except Exception:
            pass
        reset_sticky_globals()
    res['seconds'] = round(time.time() - t0, 3)
    return res


def parse_output_block(line):
    """one line of *_optimized.txt (to_plain_with_byte_number) -> executor items"""
    from specs import evmexec
    toks = line.split()
    items = []
    i = 0
    while i < len(toks):
        t = toks[i]
        if t == 'PUSH0':
            items.append(('PUSH', 0))
        elif t.startswith('PUSH') and t[4:].isdigit():
            items.append(('PUSH', int(toks[i + 1], 16)))
            i += 1
        elif t.startswith('PUSH'):
            # pseudo push: name (possibly two words) + value
            if i + 1 < len(toks) and toks[i + 1] in ('[tag]', 'data', '[$]', '#[$]'):
                items.append((t + ' ' + toks[i + 1], toks[i + 2] if i + 2 < len(toks) else None))
                i += 2
            elif t in ('PUSHSIZE', 'PUSHDEPLOYADDRESS'):
                items.append((t, None))
            else:
                items.append((t, toks[i + 1] if i + 1 < len(toks) else None))
                i += 1
        else:
            items.append((t, None))
        i += 1
    return items
