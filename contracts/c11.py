"""C11 - log replay reproduces the optimized code and rejects tampered logs.

P: optimize_asm_block_from_log rebuilds with exactly {k: asm_from_ids(sfs[k], log[k])} (None where the log has no entry);
   generate_sfs_dicts_from_log hands the log entries through unmodified; optimize_block logs the ids the chosen sequence was
   built from (agreement premise).  Gates: see registry (optimize_asm_from_log, optimize_asm_block_asm_format, compare).
B: native round trip and tampering on synthetic documents, judged by the reference executor.
"""
import json
import types

from pyvc import sym
from pyvc.sym import Sym
from pyvc.harness import Case, NativeCase
from .gates import Marker, Blk
from . import blocks as corpus, docs, pipeline
from smt_encoding.solver.solver import OptimizeOutcome
import gasol_asm


class FromLogBlock(Case):
    prop = 'C11'
    tier = 'P'
    name = "optimize_asm_block_from_log"
    functions = (gasol_asm.optimize_asm_block_from_log,)

    def make_stubs(self):
        def st_asm(it, sfs, ids):
            m = Marker('asm', sfs=sfs, ids=ids)
            it.trace.append(('asm_from_ids', sfs, ids, m))
            return m

        def st_rebuild(it, block, sbl, mapping):
            it.trace.append(('rebuild', block, sbl, dict(mapping)))
            return Marker('rebuilt')
        return {'solution_generation.ids2asm.asm_from_ids': st_asm, 'gasol_asm.asm_from_ids': st_asm,
                'solution_generation.optimize_from_sub_blocks.rebuild_optimized_asm_block': st_rebuild}

    def run(self, H):
        names = ["b_0", "b_1", "b_2"]
        sfs = dict((n, Marker('sfs-' + n)) for n in names)
        log = {}
        for n in names + ["foreign_7"]:
            if H.choice('in_log_' + n, [False, True]):
                log[n] = Marker('ids-' + n)
        block, sbl = Blk('b'), Marker('sbl')
        out = H.call(gasol_asm.optimize_asm_block_from_log, block, sfs, sbl, log)
        H.check('raises-nothing', out.ok, info=repr(out.exc))
        if not out.ok:
            return
        rb = [t for t in H.it.trace if t[0] == 'rebuild']
        H.check('rebuilt-once-from-(block,sub_block_list)', len(rb) == 1 and rb[0][1] is block and rb[0][2] is sbl)
        if len(rb) != 1:
            return
        mp = rb[0][3]
        H.check('mapping-keys=sub-blocks-of-the-block', set(mp.keys()) == set(names))
        for n in names:
            v = mp.get(n)
            if n in log:
                H.check('logged=>asm_from_ids(sfs,log)[%s]' % n, isinstance(v, Marker) and v.tag == 'asm' and v.sfs is sfs[n] and v.ids is log[n])
            else:
                H.check('not-logged=>None[%s]' % n, v is None)


class GenerateSfsFromLog(Case):
    prop = 'C11'
    tier = 'P'
    name = "generate_sfs_dicts_from_log"
    functions = (gasol_asm.generate_sfs_dicts_from_log,)

    def make_stubs(self):
        def st_sfs(it, block, params):
            return {"syrup_contract": it.cfg['sfs']}, it.cfg['sbl']
        return {'gasol_asm.compute_original_sfs_with_simplifications': st_sfs}

    def run(self, H):
        names = ["b_0", "b_1"]
        sfs = dict((n, Marker('sfs-' + n)) for n in names)
        log = {}
        for n in names + ["foreign_7"]:
            if H.choice('in_log_' + n, [False, True]):
                log[n] = Marker('ids-' + n)
        H.it.cfg = dict(sfs=sfs, sbl=Marker('sbl'))
        out = H.call(gasol_asm.generate_sfs_dicts_from_log, Blk('b'), log, types.SimpleNamespace())
        H.check('raises-nothing', out.ok, info=repr(out.exc))
        if not out.ok:
            return
        allsfs, opt, sbl, seqs, ids = out.value
        H.check('all-specifications-returned', allsfs is sfs and sbl is H.it.cfg['sbl'])
        H.check('sequences=log-restricted-to-this-block', set(seqs.keys()) == set(n for n in names if n in log)
                and all(seqs[n] is log[n] for n in seqs))


class OptimizeBlockLogAgreement(Case):
    """optimize_block: the ids recorded for the log are the ids the chosen instruction sequence was built from"""
    prop = 'C11'
    tier = 'P'
    name = "optimize_block(logged-ids-are-the-chosen-ones)"
    functions = (gasol_asm.optimize_block,)

    def make_stubs(self):
        def st_search(it, sfs_block, params, tout, name):
            return it.cfg['outcome'], 0.1, it.cfg['opt_ids'], it.cfg['greedy_ids']

        def st_asm(it, sfs, ids):
            return Marker('asm', ids=ids)

        def st_choose(it, original, optimized_asm, greedy_asm, outcome, params):
            c = it.cfg['choose']
            if c == 'greedy' and greedy_asm is not None:
                return greedy_asm, 'greedy'
            if c == 'empty':
                return [], 'both_worse_or_equal'
            return optimized_asm, 'superopt'
        return {'gasol_asm.search_optimal': st_search, 'gasol_asm.asm_from_ids': st_asm, 'solution_generation.ids2asm.asm_from_ids': st_asm,
                'gasol_asm.choose_best_solution': st_choose,
                'gasol_asm.generate_block_from_plain_instructions': lambda it, instrs, name, *a: Blk(name),
                'sfs_generator.parser_asm.generate_block_from_plain_instructions': lambda it, instrs, name, *a: Blk(name)}

    def run(self, H):
        outcomes = [OptimizeOutcome.no_model, OptimizeOutcome.non_optimal, OptimizeOutcome.optimal, OptimizeOutcome.unsat]
        oc = outcomes[H.choice('outcome', [0, 1, 2, 3])]
        opt_ids = Marker('opt_ids') if oc in (OptimizeOutcome.non_optimal, OptimizeOutcome.optimal) else None
        greedy_ids = Marker('greedy_ids') if H.choice('greedy_found', [False, True]) else None
        ub = H.choice('ub_greedy', [False, True])
        H.it.cfg = dict(outcome=oc, opt_ids=opt_ids, greedy_ids=greedy_ids, choose=H.choice('choose', ['superopt', 'greedy', 'empty']))
        params = types.SimpleNamespace(bound_model=None, direct_timeout=True, timeout=10, dot_generation=False, optimization_enabled=True,
                                       ub_greedy=ub, verbose=False)
        sfs = {"b_0": {"init_progr_len": 5, "original_instrs": "ADD", "user_instrs": [], "rules": []}}
        out = H.call(gasol_asm.optimize_block, sfs, params)
        H.check('raises-nothing', out.ok, info=repr(out.exc))
        if not out.ok:
            return
        sols = out.value
        H.check('one-solution-per-sub-block', len(sols) == 1)
        if len(sols) != 1:
            return
        chosen, logged = sols[0][3], sols[0][8]
        if isinstance(chosen, Marker):
            H.check('logged-ids-rebuild-the-chosen-sequence', chosen.ids is logged,
                    info="chosen sequence built from %r, log holds %r" % (chosen.ids, logged))


def tamper(log, rnd):
    """the tampering operators of the property"""
    keys = sorted(log)
    out = []
    if not keys:
        return out
    for k in keys:
        ids = log[k]
        if ids:
            out.append(('deletion@' + k, dict(log, **{k: ids[:-1]})))
            out.append(('duplication@' + k, dict(log, **{k: ids + [ids[0]]})))
            out.append(('permutation@' + k, dict(log, **{k: list(reversed(ids))})))
            out.append(('substitution@' + k, dict(log, **{k: ['POP' if i == 0 else x for i, x in enumerate(ids)]})))
            out.append(('emptied@' + k, dict(log, **{k: []})))
            # an instruction that ends a block, as a foreign id in the middle / at the start of a sequence (seed C11-6): such ids are
            # never part of a specification, only the comparison of the final instructions can see them
            for h in ('STOP', 'RETURN', 'JUMP', 'INVALID', 'REVERT'):
                out.append(('halt-%s-inserted@%s' % (h, k), dict(log, **{k: ids[:len(ids) // 2] + [h] + ids[len(ids) // 2:]})))
            out.append(('halt-first@' + k, dict(log, **{k: ['STOP'] + ids})))
        for k2 in keys:
            if k2 != k:
                out.append(('foreign-ids %s<-%s' % (k, k2), dict(log, **{k: list(log[k2])})))
    out.append(('swap-pop', dict((k, ['SWAP1'] + v) for k, v in log.items())))
    return out


def blocks_of_doc(text):
    """parse an emitted document with the tool's own parser; returns {contract: [blocks...]}"""
    import tempfile, os
    from sfs_generator.parser_asm import parse_asm
    fd, fn = tempfile.mkstemp(suffix='.json_solc')
    os.write(fd, text.encode())
    os.close(fd)
    try:
        asm = parse_asm(fn)
    finally:
        os.remove(fn)
    res = {}
    for c in asm.contracts:
        if not c.has_asm_field:
            continue
        bl = list(c.init_code)
        for ident in c.get_data_ids_with_code():
            bl += list(c.get_run_code(ident))
        res[c.contract_name] = bl
    return res


def equivalent_docs(text_a, text_b, n_states=10):
    """every block of b behaves like the block of a at the same position (reference executor); returns (ok, why)"""
    from specs import evmexec
    from sfs_generator import utils
    A, B = blocks_of_doc(text_a), blocks_of_doc(text_b)
    if set(A) != set(B):
        return False, "contracts differ"
    for c in A:
        if len(A[c]) != len(B[c]):
            return False, "number of blocks differs in " + c
        for x, y in zip(A[c], B[c]):
            ia, ib = evmexec.items_of_block(x), evmexec.items_of_block(y)
            if ia == ib:
                continue
            depth = utils.compute_stack_size([n for n, _ in ia if n not in ('tag',)])
            try:
                w = evmexec.distinguishable(ia, ib, depth + 2, n=n_states)
            except KeyError as e:
                return False, "unknown opcode %s" % e
            if w is not None:
                return False, "block %s: %s" % (x.block_name, w[2])
    return True, ""


DOCS = [
    (["PUSH 0 PUSH 5 ADD PUSH 7 MSTORE"], ["SWAP1 SWAP1 PUSH 1 ADD", "DUP1 DUP1 XOR ADD"]),
    (["DUP2 DUP2 MSTORE MLOAD ADD", "PUSH 0 MSTORE PUSH 20 MSTORE"], ["PUSH 0 SLOAD PUSH 1 SLOAD ADD PUSH 0 SSTORE", "SWAP2 SWAP1 SUB MUL PUSH 0 ADD"]),
    (["CALLVALUE DUP1 ISZERO PUSH 4 ADD POP"], ["PUSH 4 CALLDATALOAD PUSH e0 SHR PUSH 1 MUL", "PUSH 1 PUSH 0 SSTORE PUSH 2 PUSH 0 SSTORE", "POP PUSH 3 PUSH 0 ADD"]),
    # a block the front end cannot analyse (kept by the optimizing run, nothing logged for it) between two ordinary ones (finding F47)
    (["PUSH 3 PUSH 0 MSTORE"], ["PUSH 1 PUSH 2 ADD POP", "DUP2 PUSH 0 MSTORE PUSH 20 PUSH 0 KECCAK256 POP", "PUSH 5 PUSH 7 ADD PUSH 0 SSTORE"]),
]


class LogRoundTrip(NativeCase):
    prop = 'C11'
    name = "log-replay(bounded)"
    functions = (gasol_asm.optimize_asm_from_log, gasol_asm.optimize_asm_in_asm_format, gasol_asm.generate_sfs_dicts_from_log,
                 gasol_asm.optimize_asm_block_from_log)
    weight = 60

    def run_native(self, tier):
        import random
        rnd = random.Random(0)
        optsets = [(), ('-size',), ('-storage',), ('-push0',)] if tier == 'quick' else [(), ('-size',), ('-storage',), ('-length',), ('-partition',), ('-no-simplification',), ('-push0',)]
        n_t = 0
        # the last document has two contracts with the same short name and different code (finding F46)
        hom = {".code": docs.code_of_blocks([corpus.tokens("CALLVALUE PUSH 0 MSTORE PUSH 1 PUSH 2 ADD POP")]),
               ".data": {"0": {".auxdata": "a2", ".code": docs.code_of_blocks([corpus.tokens("PUSH 3 PUSH 4 ADD PUSH 0 SSTORE")])}}}
        # the document after that has two sub-assemblies with code (seed C09-5)
        two = [corpus.tokens(b) for b in ("PUSH 2 PUSH 3 ADD PUSH 1 SSTORE", "DUP1 DUP1 XOR ADD")]
        for di, (ib, rb) in enumerate(DOCS + DOCS[:2]):
            doc = docs.dumps(docs.document([corpus.tokens(b) for b in ib], [corpus.tokens(b) for b in rb], homonym=hom if di == len(DOCS) else None,
                                           second_runtime=two if di == len(DOCS) + 1 else None))
            for opts in optsets:
                inp = dict(doc=di, opts=list(opts))
                r1 = pipeline.run_cli(doc, ['-log'] + list(opts), fmt=None)
                if not r1['ok'] or r1['output'] is None or r1['log'] is None:
                    self.ob('optimizing-run-produces-output-and-log', False, inputs=inp, info=r1['exc'])
                    continue
                self.ob('optimizing-run-produces-output-and-log', True, inputs=inp)
                r2 = pipeline.run_cli(doc, ['-optimize-from-log', 'l.log'] + list(opts), fmt=None, extra_files={'l.log': r1['log']})
                self.ob('replay(log)=optimize byte-for-byte', r2['ok'] and r2['output'] == r1['output'], inputs=inp,
                        info=r2['exc'] or "outputs differ")
                log = json.loads(r1['log'])
                ts = tamper(log, rnd)
                if tier == 'quick':
                    # one tampered log per operator (the first key it applies to), then the head of the list
                    first, seen_kinds = [], set()
                    for kind, tl in ts:
                        op = kind.split('@')[0].split(' ')[0]
                        if op not in seen_kinds:
                            seen_kinds.add(op)
                            first.append((kind, tl))
                    ts = first + [t for t in ts[:6] if t not in first]
                for kind, tl in ts:
                    r3 = pipeline.run_cli(doc, ['-optimize-from-log', 'l.log'] + list(opts), fmt=None, extra_files={'l.log': json.dumps(tl)})
                    n_t += 1
                    ti = dict(inp, tamper=kind, log=tl)
                    if r3['output'] is None:
                        self.ob('tampered-log=>error-or-equivalent', True, inputs=ti)      # stopped with an error
                        continue
                    ok, why = equivalent_docs(doc, r3['output'])
                    self.ob('tampered-log=>error-or-equivalent', ok, inputs=ti, info=why)
        self.assumptions = ("bounded: %d synthetic documents x %d option sets, %d tampered logs" % (len(DOCS), len(optsets), n_t),)


def cases(tier='quick'):
    return [FromLogBlock(), GenerateSfsFromLog(), OptimizeBlockLogAgreement(), LogRoundTrip()], {}
