"""C09 - non-optimizable code and metadata are preserved; emitted items are well formed.

P : ids2asm.id_to_asm_bytecode / id_seq_to_asm_bytecode: shape of the rebuilt item for every instruction kind (canonical hex of
    numeric pushes for all words, operand of pseudo pushes, basic stack operations, NOP filtered).
    Contract-level surgery is covered by the gate contracts (optimize_asm_contract: frame clause) and by C14 (rebuild).
B : the whole tool on synthetic documents: skeleton, metadata, item well-formedness, operand provenance, re-readability.
"""
import json
import re

import z3

from pyvc import sym
from pyvc.sym import Sym, WORD, sand, sor, snot, implies
from pyvc.harness import Case, NativeCase
from .common import asm_bytecode, constants, opcodes
from . import docs, blocks as corpus, pipeline, c15
import solution_generation.ids2asm as ids2asm

AsmBytecode = asm_bytecode.AsmBytecode


class IdToAsm(Case):
    prop = 'C09'
    tier = 'P'
    functions = (ids2asm.id_to_asm_bytecode,)
    max_steps = 1000

    def __init__(self, disasm):
        self.d = disasm
        self.name = "id_to_asm_bytecode[%s]" % disasm

    def run(self, H):
        d = self.d
        instr = {"id": "X_0", "disasm": d, "inpt_sk": [], "outpt_sk": ["s(1)"]}
        v = None
        if d in HEX_OPERAND:
            v = H.word('value')
            instr["value"] = [v]
        elif d in ("PUSH [tag]", "PUSHLIB"):
            v = H.int('value', 0, 2 ** 64)
            instr["value"] = [v]
        elif d == "PUSH0":
            instr["value"] = [0]
        out = H.call(ids2asm.id_to_asm_bytecode, {"X_0": instr}, "X_0")
        H.check('raises-nothing', out.ok, info=repr(out.exc))
        if not out.ok:
            return
        it = out.value
        if d == "PUSH0":
            H.check('PUSH0-instruction=>PUSH-item-with-value-0', it.disasm == "PUSH" and it.value == "0")
            return
        H.check('item-name=instruction-name', it.disasm == d)
        if d in HEX_OPERAND:
            val = it.value
            canon = H.hex_of(v)
            H.check('value=canonical-lowercase-hex-of-the-word', sym.sym_eq(val, canon))
        elif v is not None:
            H.check('operand-is-the-decimal-string-of-the-specification-value', sym.sym_eq(it.value, H.it.to_str(v) if H.symbolic else str(v)))
        else:
            H.check('no-operand', it.value is None)
        H.check('position-fields-are-the-synthetic-marker', it.begin == -1 and it.end == -1 and it.source == -1)


# kinds whose operand is hexadecimal text in the assembly and which the front end stores as a number (ir_block.translateYulOpcodes:
# dec_value = int(value, 16)): the item rebuilt from the specification must spell that number in hexadecimal again.  PUSH [tag] keeps
# its (decimal) text, PUSHLIB carries a per-block index that rebuild_optimized_asm_block turns back into the library.
HEX_OPERAND = ("PUSH", "PUSH data", "PUSHIMMUTABLE", "PUSH #[$]", "PUSH [$]")


class IdSeqToAsm(Case):
    """ids not bound by the specification are emitted as items named by the id itself: NOP is dropped, and the precondition
    of the back ends (ids are instruction ids or POP / DUPk / SWAPk) makes them valid opcode names"""
    prop = 'C09'
    tier = 'P'
    name = "id_seq_to_asm_bytecode"
    functions = (ids2asm.id_seq_to_asm_bytecode, ids2asm.asm_from_ids)

    def run(self, H):
        basic = ["POP", "DUP1", "DUP16", "SWAP1", "SWAP16", "NOP"]
        seq = [basic[H.choice('id%d' % i, list(range(len(basic))))] for i in range(3)]
        sms = {"user_instrs": [{"id": "ADD_0", "disasm": "ADD", "inpt_sk": ["s(0)", "s(1)"], "outpt_sk": ["s(2)"]}]}
        out = H.call(ids2asm.asm_from_ids, sms, seq + ["ADD_0"])
        H.check('raises-nothing', out.ok, info=repr(out.exc))
        if not out.ok:
            return
        names = [x.disasm for x in out.value]
        H.check('one-item-per-id-except-NOP,in-order', names == [s for s in seq if s != "NOP"] + ["ADD"])
        H.check('basic-ids-have-no-operand', all(x.value is None for x in out.value))


KNOWN = set(opcodes.opcodes.keys()) | {"RETURNDATASIZE", "RETURNDATACOPY", "SELFDESTRUCT", "PUSH0", "KECCAK256", "JUMPDEST", "tag",
                                      "PUSH", "PUSH [tag]", "PUSH data", "PUSH #[$]", "PUSH [$]", "PUSHSIZE", "PUSHLIB",
                                      "PUSHDEPLOYADDRESS", "PUSHIMMUTABLE", "ASSIGNIMMUTABLE", "INVALID", "JUMP", "JUMPI", "STOP",
                                      "RETURN", "REVERT", "GAS", "PC", "MSIZE"}
SKELETON = set(constants.beginning_block) | set(constants.end_block) | set(constants.split_block) | {"PUSH [tag]"} - {"PUSH [tag]"}


def code_lists(doc):
    """yield (path, list of items) for every instruction stream of the document"""
    for cname, c in doc["contracts"].items():
        asm = c.get("asm") if isinstance(c, dict) else None
        if not asm:
            continue
        yield (cname, '.code'), asm[".code"]
        for k, v in asm.get(".data", {}).items():
            if isinstance(v, dict) and ".code" in v:
                yield (cname, '.data', k), v[".code"]


def meta_of(doc):
    d = json.loads(json.dumps(doc))
    for cname, c in d["contracts"].items():
        asm = c.get("asm") if isinstance(c, dict) else None
        if not asm:
            continue
        asm[".code"] = None
        for k, v in asm.get(".data", {}).items():
            if isinstance(v, dict) and ".code" in v:
                v[".code"] = None
    return d


def segments(items):
    """split a stream at skeleton items: returns list of ('skel', item) / ('seg', [items])"""
    out = []
    cur = []
    for it in items:
        if it["name"] in SKELETON:
            if cur:
                out.append(('seg', cur))
                cur = []
            out.append(('skel', it))
        else:
            cur.append(it)
    if cur:
        out.append(('seg', cur))
    return out


def wellformed(it):
    n = it.get("name")
    if n not in KNOWN and not re.fullmatch(r"(DUP|SWAP)([1-9]|1[0-6])", n or ""):
        return "unknown opcode name %r" % (n,)
    if n == "PUSH":
        v = it.get("value")
        if not isinstance(v, str) or not re.fullmatch(r"0|[1-9a-fA-F][0-9a-fA-F]*", v):
            return "PUSH value %r is not canonical hex" % (v,)
        if int(v, 16) >= 2 ** 256:
            return "PUSH value exceeds 2^256"
    if n in ("PUSH0", "PUSHSIZE", "PUSHDEPLOYADDRESS") and "value" in it:
        return "%s with an operand" % n
    return None


class DocumentSkeleton(NativeCase):
    prop = 'C09'
    name = "document-skeleton,metadata,item-well-formedness"
    weight = 70

    def run_native(self, tier):
        import gasol_asm
        self.functions = (gasol_asm.optimize_asm_in_asm_format, gasol_asm.optimize_asm_contract)
        ds = list(c15.special_documents())
        ds.append(('corpus-A', docs.document([corpus.tokens(b) for b in corpus.BASE_BLOCKS[:6]], [corpus.tokens(b) for b in corpus.BASE_BLOCKS[6:18]])))
        ds.append(('corpus-B', docs.document([corpus.tokens(b) for b in corpus.BASE_BLOCKS[18:24]], [corpus.tokens(b) for b in corpus.BASE_BLOCKS[24:]])))
        # splits and pseudo pushes inside optimizable segments
        seg = [docs.item("PUSH", "0"), docs.item("PUSH", "5"), docs.item("ADD"), docs.item("PUSH [tag]", "7"), docs.item("SWAP1"),
               docs.item("PUSH", "0"), docs.item("PUSH", "0"), docs.item("LOG1"), docs.item("PUSHLIB", "contracts/Lib.sol:Lib"),
               docs.item("PUSH", "0"), docs.item("ADD"), docs.item("PUSHIMMUTABLE", "77"), docs.item("PUSH data", "ab"), docs.item("POP"),
               docs.item("PUSH", "ffffffffffffffffffffffffffffffffffffffffffffffffffffffffffffffff"), docs.item("PUSH", "1"), docs.item("ADD"),
               docs.item("SWAP1"), docs.item("POP"), docs.item("PUSH [tag]", "9"), docs.item("JUMP", jumpType="[in]"),
               docs.item("tag", "9"), docs.item("JUMPDEST"), docs.item("PUSHLIB", "contracts/Other.sol:Other"), docs.item("PUSHLIB", "contracts/Lib.sol:Lib"),
               docs.item("SWAP1"), docs.item("POP"), docs.item("STOP")]
        ds.append(('splits+pseudo-pushes', {"contracts": {"x.sol:X": {"asm": {".code": seg, ".data": {}}}}, "version": "0.8.17"}))
        # constant operations whose mathematical result leaves the 256-bit range (seed C09-4: a fold without the wrap emits PUSH of 257 bits)
        F = "f" * 64
        wrap = ["PUSH 8000000000000000000000000000000000000000000000000000000000000001 PUSH 1 SHL", "PUSH %s PUSH 2 MUL" % F, "PUSH %s PUSH %s ADD" % (F, F),
                "PUSH 100 PUSH 2 EXP", "PUSH %s PUSH ff SHL" % F, "PUSH 1 PUSH 0 SUB", "PUSH %s PUSH %s MUL PUSH 1 ADD" % (F, F), "PUSH 2 PUSH %s PUSH %s ADDMOD" % (F, F)]
        ds.append(('wrapping-constants', docs.document([corpus.tokens(wrap[0])], [corpus.tokens(b + " SWAP1 POP") for b in wrap])))
        optsets = [(), ('-size',), ('-storage',)] if tier == 'quick' else [(), ('-size',), ('-length',), ('-storage',), ('-partition',), ('-no-simplification',), ('-push0',)]
        n = 0
        for nm, d in ds:
            for opts in optsets:
                inp = dict(doc=nm, opts=list(opts))
                r = pipeline.run_cli(docs.dumps(d), list(opts), fmt=None, timeout=120)
                if r['output'] is None:
                    self.ob('output-written', False, inputs=inp, info=r['exc'])
                    continue
                n += 1
                out = json.loads(r['output'])
                p0 = '-push0' not in opts
                dn = c15.normalize_push0(d, p0)
                self.ob('metadata-unchanged(version,contracts,auxdata,data,sourceList)', c15.diff_json(meta_of(dn), meta_of(out)) is None,
                        inputs=inp, info=c15.diff_json(meta_of(dn), meta_of(out)))
                ins = dict(code_lists(dn))
                outs = dict(code_lists(out))
                self.ob('same-instruction-streams-present', set(ins) == set(outs), inputs=inp)
                for path in ins:
                    if path not in outs:
                        continue
                    a, b = segments(ins[path]), segments(outs[path])
                    ska = [x for k, x in a if k == 'skel']
                    skb = [x for k, x in b if k == 'skel']
                    self.ob('skeleton-items-preserved-with-all-fields,in-order', ska == skb, inputs=dict(inp, stream=list(path)),
                            info=c15.diff_json(ska, skb))
                    for it in outs[path]:
                        if it.get("begin") != -1:
                            continue        # an untouched input item, not emitted by the optimizer
                        w = wellformed(it)
                        if w:
                            self.ob('emitted-items-well-formed', False, inputs=dict(inp, stream=list(path), item=it), info=w)
                    self.ob('emitted-items-well-formed', True, inputs=dict(inp, stream=list(path)))
                    # operand provenance of pseudo pushes: per maximal segment between skeleton items
                    def seglist(x):
                        res, cur = [], []
                        for k, v in x:
                            if k == 'skel':
                                res.append(cur)
                                cur = []
                            else:
                                cur = v
                        res.append(cur)
                        return res
                    for sa, sb in zip(seglist(a), seglist(b)):
                        have = set((i["name"], i.get("value")) for i in sa)
                        for it in sb:
                            if it["name"].startswith("PUSH") and it["name"] not in ("PUSH", "PUSH0"):
                                self.ob('pseudo-push-operand-occurs-in-the-input-segment', (it["name"], it.get("value")) in have,
                                        inputs=dict(inp, stream=list(path), item=it), info="input segment has %s" % sorted(x for x in have if x[0] != 'PUSH'))
                try:
                    again = c15.roundtrip(out)
                    self.ob('output-re-read-by-the-tool-parser-is-unchanged', c15.diff_json(c15.normalize_push0(out, p0), again) is None, inputs=inp,
                            info=c15.diff_json(c15.normalize_push0(out, p0), again))
                except BaseException as e:
                    self.ob('output-re-read-by-the-tool-parser-is-unchanged', False, inputs=inp, info=repr(e))
        constants._set_push0(True)
        self.assumptions = ("bounded: %d documents x %d option sets (greedy back end)" % (len(ds), len(optsets)),)


def cases(tier='quick'):
    kinds = ["PUSH", "PUSH0", "PUSH data", "PUSHIMMUTABLE", "PUSH [tag]", "PUSH #[$]", "PUSH [$]", "PUSHLIB", "ADD", "MLOAD", "PUSHSIZE",
             "PUSHDEPLOYADDRESS", "CALLER"]
    return [IdToAsm(k) for k in kinds] + [IdSeqToAsm(), DocumentSkeleton()], {}
