"""C02 - the stack/memory specification denotes the block under every admissible schedule.

P : are_dependent (alias/overlap kernel): conflict(t1, t2) => result, for every pair of access kinds and all addresses.
B : for a corpus of memory/storage blocks, every linearization of the specification's operations consistent with the exported
    dependences and with data flow, evaluated on sampled states (aliasing offsets included), yields the stack, memory and
    storage of the block itself (reference executor).
"""
import itertools

import z3

from pyvc import sym
from pyvc.sym import Sym, WORD, sand, sor, snot, implies
from pyvc.harness import Case, NativeCase
from specs import evmexec, speceval
from .common import go, utils, spec_of_block, plain_names, cleanup_tmp
from . import blocks as corpus, pipeline

MEM_KINDS = ["mstore", "mstore8", "mload0", "keccak2560"]
STO_KINDS = ["sstore", "sload1"]


def width(kind):
    return 1 if kind.startswith("mstore8") else 32


class Leaves(object):
    """result list of get_variables: membership is an arbitrary (symbolic) fact"""

    def __init__(self, path):
        self.path = path

    def _pyvc_contains(self, item):
        return self.path.fresh_bool('leaf')

    def append(self, x):
        pass


class AreDependent(Case):
    prop = 'C02'
    tier = 'P'
    functions = (go.are_dependent,)
    native_cover = True
    assumptions = ("extra_dep_info = {} (no external alias analysis), mem40_pattern = False",
                   "addresses are decimal numerals of words or variable names starting with 's'; two different names may denote the same word",)

    def __init__(self, k1, k2, loc, shape):
        self.k1, self.k2, self.loc, self.shape = k1, k2, loc, shape
        self.name = "are_dependent[%s,%s,%s]" % (k1, k2, shape)

    def make_stubs(self):
        def st_get_variables(it, var, lst):
            return None
        return {}

    def addr(self, H, name, is_const):
        if is_const:
            v = H.word(name)
            s_ = H.it.to_str(v) if H.symbolic else str(v)
            if H.symbolic:
                H.assume(z3.Not(z3.PrefixOf(z3.StringVal("s"), sym.lift(s_))))
            return s_, v
        s_ = H.str(name)
        if H.symbolic:
            H.assume(z3.And(z3.PrefixOf(z3.StringVal("s("), s_.e), z3.Not(sym.numeral(s_.e))))
        else:
            H.assume(isinstance(s_, str) and s_.startswith("s(") and not s_.isdigit())
        return s_, None

    def run(self, H):
        c1, c2 = self.shape[0] == 'c', self.shape[1] == 'c'
        a1, v1 = self.addr(H, 'a1', c1)
        a2, v2 = self.addr(H, 'a2', c2)
        H.set_global(go, 'extra_dep_info', {})
        H.set_global(go, 'mem40_pattern', False)
        H.set_global(go, 'u_dict', {})

        def access(a, kind, tag):
            if kind.startswith("keccak"):
                ln = H.word(tag + '_len')
                return ((a, H.it.to_str(ln) if H.symbolic else str(ln), kind), 2), ln
            if kind.startswith(("mstore", "sstore")):
                return ((a, "s(9)", kind), 2), None
            return ((a, kind), 1), None
        t1, n1 = access(a1, self.k1, 't1')
        t2, n2 = access(a2, self.k2, 't2')
        out = H.call(go.are_dependent, t1, t2, 0, 1, self.loc)
        H.check('raises-nothing', out.ok, info=repr(out.exc))
        if not out.ok:
            return
        r = out.value
        res = sym.truth(r) if isinstance(r, Sym) else bool(r)
        # the oracle: when must the two accesses be ordered?
        if self.loc == "storage":
            if c1 and c2:
                conflict = v1 == v2
            else:
                conflict = True
        else:
            if c1 and c2:
                w1 = n1 if n1 is not None else width(self.k1)
                w2 = n2 if n2 is not None else width(self.k2)
                conflict = sand(v1 < v2 + w2, v2 < v1 + w1)
            else:
                conflict = True
        writes = self.k1.startswith(("mstore", "sstore")) or self.k2.startswith(("mstore", "sstore"))
        if not writes:
            return
        H.check('may-overlap=>dependent', implies(conflict, res))


class GenerateDependencesPair(AreDependent):
    """generate_dependences on a trace of two stores: the pair is exported as ordered whenever the two writes do not commute.
    (The function examines every pair (j, i), j < i, of the trace independently of the others - its loops carry no state but
    the result list - so the pairwise clause lifts to traces of any length: stated meta-step.)"""
    functions = (go.generate_dependences,)

    def __init__(self, k1, k2, loc, shape, same_value):
        AreDependent.__init__(self, k1, k2, loc, shape)
        self.same_value = same_value
        self.name = "generate_dependences[%s,%s,%s,%s]" % (k1, k2, shape, 'same-value' if same_value else 'different-values')

    native_cover = True
    NAMES = ['s(1)', 's(2)', 's(11)']      # stack-variable addresses: concrete names (the code walks over their characters)

    def addr(self, H, name, is_const):
        if not is_const:
            return H.choice(name, self.NAMES), None
        if H.symbolic:
            return AreDependent.addr(self, H, name, True)
        v = H.word(name)
        return str(v), v

    def run(self, H):
        c1, c2 = self.shape[0] == 'c', self.shape[1] == 'c'
        a1, v1 = self.addr(H, 'a1', c1)
        a2, v2 = self.addr(H, 'a2', c2)
        H.set_global(go, 'extra_dep_info', {})
        H.set_global(go, 'mem40_pattern', False)
        H.set_global(go, 'u_dict', {})
        t1 = ((a1, "s(9)", self.k1), 2)
        t2 = ((a2, "s(9)" if self.same_value else "s(8)", self.k2), 2)
        out = H.call(go.generate_dependences, [t1, t2], self.loc)
        H.check('raises-nothing', out.ok, info=repr(out.exc))
        if not out.ok:
            return
        ordered = (0, 1) in [tuple(x) for x in out.value]
        same_name = (a1 == a2) if not (c1 or c2) else False
        if self.loc == "storage":
            overlap = (v1 == v2) if (c1 and c2) else True
            same_place = (v1 == v2) if (c1 and c2) else same_name
        else:
            overlap = sand(v1 < v2 + width(self.k2), v2 < v1 + width(self.k1)) if (c1 and c2) else True
            same_place = sand((v1 == v2) if (c1 and c2) else same_name, width(self.k1) == width(self.k2))
        if self.loc == "storage" and self.same_value:
            commute = True          # equal keys: same word written twice; different keys: different slots
        else:
            commute = sor(snot(overlap), sand(same_place, self.same_value))
        H.check('writes-that-do-not-commute-are-ordered', implies(snot(commute), ordered))


class GenerateDependencesLoadStore(GenerateDependencesPair):
    """generate_dependences on a trace of one load and one store (either order): ordered whenever the two may touch one location"""

    def __init__(self, kload, kstore, loc, shape, load_first):
        AreDependent.__init__(self, kload, kstore, loc, shape)
        self.load_first = load_first
        self.same_value = False
        self.name = "generate_dependences[%s,%s,%s,%s]" % ((kload, kstore) if load_first else (kstore, kload), '', shape, 'load-store')
        self.name = "generate_dependences[%s %s,%s]" % ("%s;%s" % ((kload, kstore) if load_first else (kstore, kload)), shape, loc)

    def run(self, H):
        c1, c2 = self.shape[0] == 'c', self.shape[1] == 'c'
        a1, v1 = self.addr(H, 'a1', c1)          # the load
        a2, v2 = self.addr(H, 'a2', c2)          # the store
        H.set_global(go, 'extra_dep_info', {})
        H.set_global(go, 'mem40_pattern', False)
        H.set_global(go, 'u_dict', {})
        n1 = None
        if self.k1.startswith("keccak"):
            n1 = H.word('hash_len')
            tl = ((a1, H.it.to_str(n1) if H.symbolic else str(n1), self.k1), 2)
        else:
            tl = ((a1, self.k1), 1)
        ts = ((a2, "s(9)", self.k2), 2)
        trace = [tl, ts] if self.load_first else [ts, tl]
        out = H.call(go.generate_dependences, trace, self.loc)
        H.check('raises-nothing', out.ok, info=repr(out.exc))
        if not out.ok:
            return
        ordered = (0, 1) in [tuple(x) for x in out.value]
        if self.loc == "storage":
            overlap = (v1 == v2) if (c1 and c2) else True
        elif c1 and c2:
            w1 = n1 if n1 is not None else 32
            overlap = sand(v1 < v2 + width(self.k2), v2 < v1 + w1)
        else:
            overlap = True
        H.check('a load and a store that may touch one location are ordered', implies(overlap, ordered))


def get_variables_stub(it, var, lst):
    return None


MEM_BLOCKS = [
    "PUSH 0 MSTORE PUSH 10 MSTORE PUSH 0 MLOAD", "PUSH 0 MSTORE PUSH 20 MSTORE PUSH 0 MLOAD", "PUSH 0 MSTORE PUSH 1f MSTORE PUSH 0 MLOAD",
    "PUSH 0 MSTORE PUSH 1 MSTORE", "PUSH 20 MSTORE PUSH 1 MSTORE", "PUSH 0 MSTORE8 PUSH 0 MSTORE", "PUSH 5 MSTORE8 PUSH 0 MLOAD",
    "PUSH 0 MLOAD PUSH 5 MSTORE8", "PUSH 0 MLOAD SWAP1 PUSH 5 MSTORE8", "PUSH 0 MLOAD SWAP1 PUSH 20 MSTORE8", "DUP2 DUP2 MSTORE MLOAD ADD",
    "DUP1 DUP1 PUSH 5 ADD MSTORE8 MLOAD", "DUP1 MLOAD SWAP1 PUSH 5 ADD PUSH 7 SWAP1 MSTORE8", "DUP2 DUP2 MSTORE PUSH 1f ADD MLOAD",
    "DUP2 DUP2 MSTORE PUSH 20 ADD MLOAD", "DUP1 PUSH ff AND DUP3 SWAP1 MSTORE MLOAD", "DUP3 DUP3 MSTORE DUP1 MLOAD SWAP3 POP POP POP",
    "DUP2 DUP2 MSTORE DUP3 SWAP1 MSTORE", "DUP2 DUP2 MSTORE SWAP2 SWAP1 MSTORE", "DUP2 DUP2 MSTORE8 SWAP2 SWAP1 MSTORE",
    "PUSH 7 DUP2 MSTORE PUSH 9 DUP3 MSTORE MLOAD SWAP1 MLOAD", "DUP2 PUSH 0 MSTORE PUSH 20 PUSH 0 KECCAK256 SWAP2 POP POP",
    "PUSH 20 PUSH 0 KECCAK256 SWAP1 PUSH 10 MSTORE", "SWAP1 PUSH 10 MSTORE PUSH 20 PUSH 0 KECCAK256", "SWAP1 PUSH 20 MSTORE PUSH 20 PUSH 0 KECCAK256",
    "SWAP1 PUSH 1f MSTORE8 PUSH 20 PUSH 0 KECCAK256", "DUP2 DUP2 KECCAK256 SWAP2 SWAP1 MSTORE", "DUP3 DUP2 MSTORE DUP2 DUP2 KECCAK256 SWAP3 POP POP POP",
    "DUP2 DUP2 SSTORE SLOAD ADD", "DUP2 DUP2 SSTORE DUP3 SWAP1 SSTORE", "DUP1 SLOAD PUSH 1 ADD SWAP1 SSTORE", "PUSH 0 SLOAD PUSH 1 SLOAD ADD PUSH 0 SSTORE",
    "PUSH 1 PUSH 0 SSTORE PUSH 2 PUSH 0 SSTORE", "PUSH 1 PUSH 0 SSTORE PUSH 0 SLOAD", "DUP2 DUP2 SSTORE PUSH 1 AND SLOAD", "DUP1 SLOAD DUP3 DUP3 SSTORE SWAP2 POP SLOAD ADD",
    "SWAP1 DUP2 SSTORE PUSH 7 SWAP1 SSTORE", "DUP1 SLOAD SWAP1 SLOAD ADD", "PUSH 0 MLOAD PUSH 0 MLOAD ADD", "PUSH 40 MLOAD DUP1 PUSH 20 ADD PUSH 40 MSTORE SWAP1 POP",
    "PUSH 40 MLOAD PUSH 5 DUP2 MSTORE PUSH 20 ADD PUSH 40 MSTORE", "PUSH 5 PUSH 7 DUP3 MSTORE PUSH 9 DUP3 MSTORE8 SWAP1 MLOAD ADD",
    "DUP1 DUP1 MSTORE DUP1 MLOAD MSTORE", "PUSH 0 DUP2 MSTORE PUSH 1 DUP2 MSTORE8 MLOAD", "DUP2 DUP2 MSTORE DUP2 DUP2 MSTORE POP POP",
    "DUP2 DUP2 MSTORE DUP1 MLOAD DUP2 MSTORE POP POP", "PUSH 0 PUSH 0 MSTORE8 PUSH 0 PUSH 1f MSTORE8 PUSH 0 MLOAD",
]


def hash_blocks():
    """one region hashed twice with a store of either width in between, inside / at the edges of / outside the region, at a constant
    and at a stack-supplied offset (seed C01-5: the two hashes are unified across an MSTORE8)"""
    out = []
    for st in ("MSTORE", "MSTORE8"):
        for off in ("0", "1f", "20", "3f", "40", "60"):
            out.append("PUSH 40 PUSH 0 KECCAK256 SWAP1 PUSH %s %s PUSH 40 PUSH 0 KECCAK256 ADD" % (off, st))
        out.append("PUSH 40 PUSH 0 KECCAK256 SWAP2 SWAP1 %s PUSH 40 PUSH 0 KECCAK256 ADD" % st)
        out.append("PUSH 20 PUSH 20 KECCAK256 SWAP2 SWAP1 %s PUSH 20 PUSH 20 KECCAK256 ADD" % st)
    out.append("PUSH 40 PUSH 0 KECCAK256 PUSH 40 PUSH 0 KECCAK256 ADD")
    return out


def generated_mem_blocks(tier):
    """three (four in thorough) memory accesses with constant offsets around word boundaries and one stack-supplied offset"""
    import random
    offs = ["0", "10", "1f", "20", "28", "5", "14"]
    out = []
    kinds = ["MSTORE", "MSTORE8", "MLOAD"]
    combos = []
    for ks in itertools.product(kinds, repeat=3):
        if sum(1 for k in ks if k != "MLOAD") < 2:
            continue
        for os_ in itertools.product(offs, repeat=3):
            combos.append((ks, os_))
    rnd = random.Random(5)
    rnd.shuffle(combos)
    combos = combos[:150] if tier == 'quick' else combos[:1500]
    for ks, os_ in combos:
        b = []
        for k, o in zip(ks, os_):
            b += ["PUSH " + o, k]
        out.append(' '.join(b))
    # a load whose value is annihilated by a rule (or simply dropped) next to a load that stays, then a store (F25)
    for ld, st in (("MLOAD", "MSTORE"), ("SLOAD", "SSTORE"), ("MLOAD", "MSTORE8")):
        for kill in ("DUP1 SUB", "POP PUSH 0", "PUSH 0 MUL", "PUSH 0 AND"):
            out.append("DUP1 %s %s DUP3 %s ADD SWAP2 %s" % (ld, kill, ld, st))
            out.append("DUP1 %s %s DUP2 %s ADD SWAP2 SWAP1 %s" % (ld, kill, ld, st))
            out.append("DUP2 %s %s DUP2 %s ADD SWAP2 %s" % (ld, kill, ld, st))
    # two loads of one position with a store in between that does / does not touch the loaded word (both widths)
    for st in ("MSTORE", "MSTORE8"):
        for a, b in (("80", "9f"), ("80", "80"), ("80", "a0"), ("80", "61"), ("80", "7f"), ("0", "1f"), ("20", "0")):
            out.append("PUSH %s MLOAD SWAP1 PUSH %s %s PUSH %s MLOAD" % (a, b, st, a))
        out.append("DUP2 MLOAD SWAP1 DUP3 PUSH 1f ADD %s SWAP1 MLOAD" % st)
    for a, b in (("1", "1"), ("1", "2")):
        out.append("PUSH %s SLOAD SWAP1 PUSH %s SSTORE PUSH %s SLOAD" % (a, b, a))
    # a load between two accesses is annihilated by a rule only after the store instructions have been generated (finding F39)
    out += ["PUSH 1 PUSH 40 MSTORE DUP1 MLOAD PUSH 0 AND PUSH 2 PUSH 40 MSTORE", "PUSH 1 PUSH 40 MSTORE DUP1 MLOAD PUSH 0 AND PUSH 40 MLOAD",
            "PUSH 1 PUSH 40 SSTORE DUP1 SLOAD PUSH 0 AND PUSH 2 PUSH 40 SSTORE", "DUP2 KECCAK256 DUP4 MSTORE DUP3 KECCAK256 SWAP2 MSTORE PUSH 0 AND MLOAD",
            "PUSH 1 DUP3 MSTORE DUP1 MLOAD DUP1 SUB PUSH 2 DUP4 MSTORE", "PUSH 1 DUP3 SSTORE DUP1 SLOAD PUSH 0 MUL DUP3 SLOAD ADD"]
    out += hash_blocks()
    # MSIZE observes every earlier memory access (finding F35)
    out += ["PUSH 80 MLOAD MSIZE", "MSIZE PUSH 80 MLOAD MSIZE", "PUSH 80 MLOAD POP MSIZE", "MSIZE DUP2 MLOAD", "PUSH 0 PUSH 0 MSTORE MSIZE",
            "MSIZE PUSH 0 PUSH 0 MSTORE", "MSIZE SWAP1 PUSH 200 MSTORE8 MSIZE"]
    out += ["PUSH 10 MSTORE PUSH 10 MLOAD PUSH 14 MSTORE", "DUP1 PUSH 10 MSTORE PUSH 14 MSTORE", "DUP1 PUSH 1f MSTORE8 PUSH 0 MSTORE",
            "DUP1 PUSH 0 MSTORE PUSH 1f MSTORE8",                     # same value stored at overlapping, different positions (F24)
            "PUSH 1 SSTORE PUSH 2 SSTORE SSTORE", "PUSH 1 SSTORE SWAP1 SSTORE PUSH 1 SSTORE", "SWAP1 PUSH 2 SSTORE PUSH 1 SSTORE SSTORE",
            "PUSH 0 MSTORE8 SWAP2 PUSH 0 MSTORE SWAP1 PUSH 28 MSTORE PUSH 10 MSTORE", "PUSH 0 MSTORE PUSH 0 MSTORE8", "PUSH 0 MSTORE8 PUSH 0 MSTORE",
            "PUSH 20 MSTORE PUSH 40 MLOAD PUSH 20 MSTORE8", "DUP1 PUSH 0 MSTORE PUSH ff PUSH 1f MSTORE8 PUSH 0 MLOAD"]
    return out


class SpecDenotesBlock(NativeCase):
    prop = 'C02'
    name = "spec-denotes-block-under-every-linearization(bounded)"
    functions = (go.generate_dependences, go.are_dependent, go.simplify_memory, go.replace_loads_by_sstores,
                 go.remove_store_recursive_dif, go.remove_store_loads, go.unify_loads_instructions, go.unify_keccak_instructions,
                 go.translate_dependences_sfs, go.extend_mem_deps_with_subterm_relation, go.generate_storage_info)
    weight = 70

    def run_native(self, tier):
        optsets = [dict(), dict(simplification=False), dict(storage=True), dict(part=True)]
        n_states = 10 if tier == 'quick' else 40
        n_lin = 0
        blocks = list(MEM_BLOCKS) + [b for b in corpus.BASE_BLOCKS if any(x in b for x in ("MSTORE", "SSTORE", "MLOAD", "SLOAD", "KECCAK"))]
        blocks += generated_mem_blocks(tier)
        blocks += corpus.random_blocks(40 if tier == 'quick' else 700, seed=23, profile='memory', maxlen=16)
        for b in blocks:
            toks = corpus.tokens(b)
            items = evmexec.parse_plain(toks)
            depth = utils.compute_stack_size(plain_names(toks))
            for opts in optsets:
                inp = dict(block=b, opts=opts)
                pipeline.reset_sticky_globals()
                try:
                    spec, sub = spec_of_block(toks, **opts)
                except BaseException as e:
                    continue        # analysis refused the block (C10's subject)
                if len(spec) != 1 or len(sub) != 1 or list(sub[0]) != [t if not t.startswith('PUSH ') else t for t in sub[0]] or len(sub[0]) != len(toks):
                    continue        # split into several sub-blocks: each is covered when it appears as a block of its own
                sfs = spec[list(spec)[0]]
                wfv = speceval.wf_violation(sfs)
                self.ob('specification well formed (producers, arities, commutative flags, acyclic)', wfv is None, inputs=inp, info=wfv)
                lins = speceval.linearizations(sfs, limit=200)
                self.ob('dependences+dataflow-are-acyclic', len(lins) > 0 or not [u for u in sfs["user_instrs"] if speceval.is_ordered(u)],
                        inputs=inp, info="no linearization")
                for order in lins:
                    n_lin += 1
                    bad = None
                    for stack in evmexec.sample_stacks(depth, n=n_states, seed=1):
                        for sd in (0, 1):
                            try:
                                ref = evmexec.run(items, stack, sd)
                            except evmexec.Underflow:
                                continue
                            try:
                                final, st = speceval.evaluate(sfs, order, stack[:len(sfs["src_ws"])], sd)
                            except BaseException as e:
                                bad = "evaluation failed: %r" % (e,)
                                break
                            exp_stack = ref.stack[:len(final)] if len(sfs["src_ws"]) <= depth else ref.stack
                            why = None
                            if final != ref.stack[:len(final)] or len(final) != len(ref.stack) - (depth - len(sfs["src_ws"])):
                                why = "final stack %s vs %s" % ([hex(x) for x in final[:4]], [hex(x) for x in ref.stack[:4]])
                            else:
                                for k in set(ref.sto) | set(st.sto):
                                    if ref.sread(k) != st.sread(k):
                                        why = "storage differs at %s" % hex(k)
                                for a in set(ref.mem) | set(st.mem):
                                    if ref.mbyte(a) != st.mbyte(a):
                                        why = "memory differs at byte %s" % hex(a)
                                        break
                            if why:
                                bad = "order %s, stack %s, seed %d: %s" % (order, [hex(x) for x in stack], sd, why)
                                break
                        if bad:
                            break
                    self.ob('every-linearization-reproduces-the-block', bad is None, inputs=dict(inp, order=order), info=bad)
        pipeline.reset_sticky_globals()
        self.assumptions = ("bounded: %d blocks x %d option sets, %d linearizations in total, %d sampled states each"
                            % (len(blocks), len(optsets), n_lin, 2 * (n_states + 5)),)
        cleanup_tmp()


def cases(tier='quick'):
    cs = []
    for k1 in MEM_KINDS:
        for k2 in MEM_KINDS:
            for shape in ('cc', 'cs', 'sc', 'ss'):
                cs.append(AreDependent(k1, k2, "memory", shape))
    for k1 in STO_KINDS:
        for k2 in STO_KINDS:
            for shape in ('cc', 'cs', 'sc', 'ss'):
                cs.append(AreDependent(k1, k2, "storage", shape))
    for k1 in ("mstore", "mstore8"):
        for k2 in ("mstore", "mstore8"):
            for shape in ('cc', 'cs', 'sc', 'ss'):
                for same in (False, True):
                    cs.append(GenerateDependencesPair(k1, k2, "memory", shape, same))
    for shape in ('cc', 'cs', 'sc', 'ss'):
        for same in (False, True):
            cs.append(GenerateDependencesPair("sstore", "sstore", "storage", shape, same))
    for kl, ks, loc in (("mload0", "mstore", "memory"), ("mload0", "mstore8", "memory"), ("keccak2560", "mstore", "memory"),
                        ("keccak2560", "mstore8", "memory"), ("sload1", "sstore", "storage")):
        for shape in ('cc', 'cs', 'sc', 'ss'):
            for first in (True, False):
                cs.append(GenerateDependencesLoadStore(kl, ks, loc, shape, first))
    cs.append(SpecDenotesBlock())
    return cs, {}
