"""Gate contracts on the per-block pipeline of gasol_asm.py (shared by C01, C08, C10, C11, C09).

Each driver function is interpreted from its real AST; its callees are replaced by their contracts (stubs) that
return opaque markers, symbolic verdicts, or -- where the contract of the callee allows it -- raise.  The trace of
stub calls is the ghost state the postconditions talk about.
"""
import types
import z3

from pyvc import sym, interp
from pyvc.sym import Sym, sand, sor, snot, implies, sym_eq
from pyvc.harness import Case
from .common import asm_bytecode, asm_block, constants
import gasol_asm
from smt_encoding.solver.solver import OptimizeOutcome
from sfs_generator.asm_contract import AsmContract

AsmBytecode = asm_bytecode.AsmBytecode
AsmBlock = asm_block.AsmBlock


class Boom(Exception):
    """what a callee raises when its contract allows failure (analysis impossible)"""


class Marker(object):
    def __init__(self, tag, **kw):
        self.tag = tag
        self.__dict__.update(kw)

    def __repr__(self):
        return "<%s>" % self.tag

    def __deepcopy__(self, memo):
        return Marker('copy-of-' + self.tag, origin=self)


class Blk(object):
    """opaque basic block (only identity and the few accessors the drivers use)"""

    def __init__(self, tag, optimizable=True):
        self.tag = tag
        self.block_name = tag
        self.block_id = 0
        self.is_init_block = False
        self._optimizable = optimizable
        self.origin = None
        self.instructions = []

    def instructions_to_optimize_plain(self):
        return ["ADD"] if self._optimizable else []

    def to_plain(self):
        return self.tag

    def to_plain_with_byte_number(self):
        return "plain(" + self.tag + ")"

    def get_block_name(self):
        return self.block_name

    def set_block_name(self, n):
        self.block_name = n

    def __deepcopy__(self, memo):
        b = Blk('copy-of-' + self.tag, self._optimizable)
        b.origin = self
        return b

    def __repr__(self):
        return "<Blk %s>" % self.tag


def _b(x):
    return sym.truth(x) if isinstance(x, Sym) else bool(x)


class DummyFile(object):
    def __init__(self, it, name, mode):
        self.it, self.name, self.mode = it, name, mode

    def __enter__(self):
        return self

    def __exit__(self, *a):
        return False

    def write(self, x):
        if not isinstance(x, str) and not (hasattr(x, 'kind') and x.kind == 'str'):
            raise TypeError("write() argument must be str, not %s" % type(x).__name__)
        self.it.trace.append(('write', self.name, x))

    def read(self):
        return "<text>"


def st_open(it, name, mode='r', *a, **k):
    it.trace.append(('open', name, mode))
    return DummyFile(it, name, mode)


class DF(object):
    def __init__(self, *a, **k):
        pass

    def to_csv(self, *a, **k):
        return None


# =====================================================================================================================
class GateOptimizeBlock(Case):
    """optimize_asm_block_asm_format: a sub-block replacement is recorded only when the solver produced a model and
    block_has_been_optimized(sub_block, candidate, params.criteria) holds; the log entry is recorded exactly then; a failing
    specification generation is contained and returns the block unchanged"""
    prop = 'C01'
    tier = 'P'
    name = "optimize_asm_block_asm_format(gate)"
    functions = (gasol_asm.optimize_asm_block_asm_format,)
    K = 2
    max_paths = 3000

    def make_stubs(self):
        case = self

        def st_sfs(it, block, params):
            it.trace.append(('sfs', block))
            if it.cfg['sfs_raises']:
                raise Boom("analysis impossible")
            return {"syrup_contract": it.cfg['sfs_dict']}, it.cfg['sub_block_list']

        def st_optimize_block(it, sfs_dict, params):
            it.trace.append(('optimize_block', sfs_dict))
            return list(it.cfg['solutions'])

        def st_stats(it, sub_block, outcome, solver_time, optimal_block, chosen_tag, bound, tout, rules):
            d = {"previous_solution": "p", "block_id": sub_block.block_name}
            if outcome in (OptimizeOutcome.optimal, OptimizeOutcome.non_optimal):
                d["solution_found"] = "s"
            return d

        def st_bhbo(it, sub_block, optimal_block, criteria):
            v = it.cfg['accept'][sub_block.block_name]
            it.trace.append(('bhbo', sub_block, optimal_block, criteria, list(optimal_block.instructions)))
            return v

        def st_rebuild(it, block, sub_block_list, optimized_blocks):
            nb = Blk('rebuilt')
            it.trace.append(('rebuild', block, sub_block_list, dict(optimized_blocks), nb))
            return nb
        return {'gasol_asm.compute_original_sfs_with_simplifications': st_sfs, 'gasol_asm.optimize_block': st_optimize_block,
                'gasol_asm.generate_statistics_info': st_stats, 'gasol_asm.block_has_been_optimized': st_bhbo,
                'gasol_asm.compare_forves': lambda it, *a: "true",
                'verification.forves_verification.compare_forves': lambda it, *a: "true",
                'solution_generation.optimize_from_sub_blocks.rebuild_optimized_asm_block': st_rebuild,
                'gasol_asm.rebuild_optimized_asm_block': st_rebuild}

    def run(self, H):
        crit = H.choice('criteria', ["gas", "size", "length"])
        params = types.SimpleNamespace(optimized_predictor_model=None, optimization_enabled=True, criteria=crit,
                                       forves_enabled=False, verbose=False)
        block = Blk('B', optimizable=H.choice('optimizable', [True, False]))
        outcomes = [OptimizeOutcome.no_model, OptimizeOutcome.non_optimal, OptimizeOutcome.optimal, OptimizeOutcome.unsat,
                    OptimizeOutcome.error]
        sols = []
        accept = {}
        for k in range(self.K):
            sb = Blk('B_%d' % k)
            oc = outcomes[H.choice('outcome%d' % k, list(range(len(outcomes))))]
            asm = [AsmBytecode(-1, -1, -1, "ADD", None)] if k == 0 else []
            logrep = Marker('log%d' % k)
            accept[sb.block_name] = H.bool('accept%d' % k)
            sols.append((sb, oc, 0.1, asm, 'tag', 10, 5, [], logrep))
        # the list of sub blocks as get_subblocks gives it: the instruction the block is split at closes a sub block and opens the
        # next one.  mem[k]: sub block k accesses memory; msize[k]: the instruction after sub block k is MSIZE
        mem = [H.choice('mem%d' % k, [False, True]) for k in range(self.K)]
        msize = [H.choice('msize%d' % k, [False, True]) for k in range(self.K - 1)]
        splits = ["MSIZE" if m else "JUMPDEST" for m in msize]
        sub_block_list = []
        for k in range(self.K):
            inner = ["PUSH1 0x20", "MLOAD", "POP"] if mem[k] else ["CALLER", "POP"]
            sub_block_list.append(([splits[k - 1]] if k > 0 else []) + inner + ([splits[k]] if k < self.K - 1 else []))
        observed = [mem[k] and any(msize[k:]) for k in range(self.K)]
        cfg = dict(sfs_raises=H.choice('sfs_raises', [False, True]), sfs_dict={"B_0": Marker('sfs0'), "B_1": Marker('sfs1')},
                   sub_block_list=sub_block_list, solutions=sols, accept=accept)
        H.it.cfg = cfg
        out = H.call(gasol_asm.optimize_asm_block_asm_format, block, params)
        tr = H.it.trace
        H.check('raises-nothing(analysis failure contained)', out.ok, info=repr(out.exc))
        if not out.ok:
            return
        res = out.value
        ok = isinstance(res, tuple) and len(res) == 3
        H.check('returns-triple', ok)
        if not ok:
            return
        new_block, log_dicts, csv = res
        if not block._optimizable or cfg['sfs_raises']:
            H.check('unchanged-copy-when-nothing-to-do-or-analysis-fails',
                    getattr(new_block, 'origin', None) is block and log_dicts == {} and csv == [])
            H.check('no-rebuild-when-analysis-fails', not any(t[0] == 'rebuild' for t in tr))
            return
        rb = [t for t in tr if t[0] == 'rebuild']
        H.check('rebuilt-once-from-input-block', len(rb) == 1 and rb[0][1] is block and rb[0][2] is cfg['sub_block_list']
                and new_block is rb[0][4])
        if len(rb) != 1:
            return
        recorded = rb[0][3]
        calls = dict((t[1].block_name, t) for t in tr if t[0] == 'bhbo')
        for k, (sb, oc, _, asm, _, _, _, _, logrep) in enumerate(sols):
            nm = sb.block_name
            has_model = oc in (OptimizeOutcome.optimal, OptimizeOutcome.non_optimal)
            rec = recorded.get(nm)
            if not has_model:
                H.check('no-model=>no-replacement[%d]' % k, rec is None and nm not in log_dicts)
                continue
            if observed[k]:
                # C01 (MSIZE): a later MSIZE sees every memory access of this sub block, also the dead reads a
                # specification drops, so no candidate may replace it whatever the acceptance test says
                H.check('memory-access-before-MSIZE=>no-replacement[%d]' % k, rec is None and nm not in log_dicts)
                continue
            c = calls.get(nm)
            H.check('acceptance-test-called-on-(sub_block,candidate,params.criteria)[%d]' % k,
                    c is not None and c[1] is sb and c[3] == crit and c[4] == list(asm))
            if c is None:
                continue
            acc = accept[nm]
            if H.symbolic:
                if H.path.branch(sym.lift(acc)):
                    H.check('accepted=>candidate-recorded[%d]' % k, rec is asm)
                    H.check('accepted=>log-entry-is-the-candidates-ids[%d]' % k, log_dicts.get(nm) is logrep)
                else:
                    H.check('rejected=>no-replacement[%d]' % k, rec is None)
                    H.check('rejected=>no-log-entry[%d]' % k, nm not in log_dicts)
            else:
                if acc:
                    H.check('accepted=>candidate-recorded[%d]' % k, rec is asm)
                    H.check('accepted=>log-entry-is-the-candidates-ids[%d]' % k, log_dicts.get(nm) is logrep)
                else:
                    H.check('rejected=>no-replacement[%d]' % k, rec is None)
                    H.check('rejected=>no-log-entry[%d]' % k, nm not in log_dicts)
        H.check('log-keys-subset-of-sub-blocks', set(log_dicts.keys()) <= set(s[0].block_name for s in sols))


# =====================================================================================================================
class GateOptimizeBlockBaseline(Case):
    """optimize_block: the block handed on as 'the original sub block' - the one the acceptance test block_has_been_optimized
    and choose_best_solution measure the candidate against - is built from the original_instrs of the SAME specification and
    carries its name; one solution per specification, in order.  (That original_instrs is the text of the sub block is the
    obligation original_instrs=the-sub-block of the specification generator, registered under C08 as well.)"""
    prop = 'C08'
    tier = 'P'
    name = "optimize_block(baseline-is-the-specified-sub-block)"
    functions = (gasol_asm.optimize_block,)

    def make_stubs(self):
        def st_search(it, sfs_block, params, tout, name):
            it.trace.append(('search', sfs_block, name))
            return it.cfg['outcome'][name], 0.1, it.cfg['opt_ids'][name], it.cfg['greedy_ids'][name]

        def st_asm(it, sfs, ids):
            return Marker('asm', ids=ids, sfs=sfs)

        def st_choose(it, original, optimized_asm, greedy_asm, outcome, params):
            it.trace.append(('choose', original, optimized_asm, greedy_asm))
            return optimized_asm, 'superopt'

        def st_gen(it, instrs, name, *a):
            b = Blk(name)
            b.instructions = Marker('instructions-of', text=instrs)
            it.trace.append(('generate', instrs, name, b))
            return b
        return {'gasol_asm.search_optimal': st_search, 'gasol_asm.asm_from_ids': st_asm, 'solution_generation.ids2asm.asm_from_ids': st_asm,
                'gasol_asm.choose_best_solution': st_choose,
                'gasol_asm.generate_block_from_plain_instructions': st_gen,
                'sfs_generator.parser_asm.generate_block_from_plain_instructions': st_gen}

    def run(self, H):
        outcomes = [OptimizeOutcome.no_model, OptimizeOutcome.non_optimal, OptimizeOutcome.optimal, OptimizeOutcome.unsat]
        names = ["b_0", "b_1"]
        oc = dict((n, outcomes[H.choice('outcome-' + n, [0, 1, 2, 3])]) for n in names)
        has = lambda n: oc[n] in (OptimizeOutcome.non_optimal, OptimizeOutcome.optimal)
        ub = H.choice('ub_greedy', [False, True])
        H.it.cfg = dict(outcome=oc, opt_ids=dict((n, Marker('opt_ids-' + n) if has(n) else None) for n in names),
                        greedy_ids=dict((n, Marker('greedy_ids-' + n) if H.choice('greedy-' + n, [False, True]) else None) for n in names))
        params = types.SimpleNamespace(bound_model=None, direct_timeout=H.choice('direct_timeout', [True, False]), timeout=10,
                                       dot_generation=False, optimization_enabled=True, ub_greedy=ub, verbose=False)
        texts = dict((n, Marker('text-of-' + n)) for n in names)
        sfs = dict((n, {"init_progr_len": 5, "original_instrs": texts[n], "user_instrs": [], "rules": Marker('rules-' + n)}) for n in names)
        out = H.call(gasol_asm.optimize_block, sfs, params)
        H.check('raises-nothing', out.ok, info=repr(out.exc))
        if not out.ok:
            return
        sols = out.value
        H.check('one-solution-per-specification-in-order', len(sols) == len(names))
        if len(sols) != len(names):
            return
        tr = H.it.trace
        for k, n in enumerate(names):
            blk = sols[k][0]
            gen = [t for t in tr if t[0] == 'generate' and t[3] is blk]
            H.check('original-block-built-from-original_instrs-of-its-own-specification[%d]' % k,
                    len(gen) == 1 and gen[0][1] is texts[n] and gen[0][2] == n)
            se = [t for t in tr if t[0] == 'search' and t[2] == n]
            H.check('search-runs-on-that-specification[%d]' % k, len(se) == 1 and se[0][1] is sfs[n])
            H.check('outcome-and-rules-are-the-ones-of-that-specification[%d]' % k, sols[k][1] is oc[n] and sols[k][7] is sfs[n]['rules'])
            cand = sols[k][3]
            if isinstance(cand, Marker):
                H.check('candidate-decoded-from-that-specification[%d]' % k, cand.sfs is sfs[n])
            if ub:
                ch = [t for t in tr if t[0] == 'choose' and t[1] is getattr(blk, 'instructions', None)]
                H.check('choice-measured-against-the-instructions-of-that-block[%d]' % k, len(ch) == 1)


# =====================================================================================================================
class EqTok(object):
    """opaque list of prefix/suffix items whose equality with another one is a symbolic verdict"""

    def __init__(self, verdict):
        self.verdict = verdict

    def __eq__(self, other):
        return self.verdict

    def __ne__(self, other):
        return sym.snot(self.verdict)

    __hash__ = None


class _Item(types.SimpleNamespace):
    """assembly item of the gate contract: equal when name and operand are equal"""

    def __eq__(self, other):
        return self.disasm == other.disasm and self.value == other.value

    def __ne__(self, other):
        return not self.__eq__(other)

    __hash__ = None


class GateCompare(Case):
    """compare_asm_block_asm_format answers True only if the specification checker answers True and the non-optimizable
    prefix and suffix items coincide; the new block's name is restored"""
    prop = 'C05'
    tier = 'P'
    name = "compare_asm_block_asm_format(gate)"
    functions = (gasol_asm.compare_asm_block_asm_format,)

    def make_stubs(self):
        def st_sfs(it, block, params):
            it.trace.append(('sfs', block, block.block_name))
            if it.cfg['raises'].get(block.tag):
                raise Boom("analysis impossible")
            # the reported sub-blocks: the last entry of each but the final one is the instruction the block is split at
            names = it.cfg['split_names'][block.tag]
            return {"syrup_contract": Marker('sfs-of-' + block.tag)}, [["OP", nm] for nm in names] + [["OP"]]

        def st_verify(it, old, new):
            it.trace.append(('verify', old, new))
            if it.cfg['raises'].get('verify'):
                raise Boom("checker failed")
            return it.cfg['verdict'], "reason"
        return {'gasol_asm.compute_original_sfs_with_simplifications': st_sfs,
                'verification.sfs_verify.verify_block_from_list_of_sfs': st_verify,
                'gasol_asm.verify_block_from_list_of_sfs': st_verify}

    def run(self, H):
        v, e1, e2 = H.bool('verdict'), H.bool('prefix_equal'), H.bool('suffix_equal')
        who = H.choice('who_raises', [None, 'old', 'new', 'verify'])
        # instructions the blocks are split at: same / other name / other operand (items of constants.split_block)
        sp = H.choice('split_instructions', ['same', 'other-name', 'other-operand', 'none'])
        names = dict(old=["LOG1"], new=["LOG1"] if sp != 'other-name' else ["LOG2"]) if sp != 'none' else dict(old=[], new=[])
        H.it.cfg = dict(verdict=v, raises={who: True}, split_names=names)
        old, new = Blk('old'), Blk('new')
        mk = lambda d, val: _Item(disasm=d, value=val)
        old.instructions = [mk("ADD", None)] + ([mk("ASSIGNIMMUTABLE", "1")] if sp != 'none' else [])
        new.instructions = [mk("SUB", None)] + ([mk("ASSIGNIMMUTABLE", "1" if sp != 'other-operand' else "2")] if sp != 'none' else [])
        split_same = sp in ('same', 'none')
        old.instructions_initial_bytecode = lambda: EqTok(e1)
        new.instructions_initial_bytecode = lambda: EqTok(e1)
        old.instructions_final_bytecode = lambda: EqTok(e2)
        new.instructions_final_bytecode = lambda: EqTok(e2)
        out = H.call(gasol_asm.compare_asm_block_asm_format, old, new, types.SimpleNamespace())
        H.check('raises-nothing(even when the analysis or the checker raises)', out.ok, info=repr(out.exc))
        H.check('name-restored-on-every-exit', new.block_name == 'new')
        if not out.ok:
            return
        r = out.value
        ok = isinstance(r, tuple) and len(r) == 2
        H.check('returns-pair', ok)
        if not ok:
            return
        acc = _b(r[0])
        if who is not None:
            H.check('analysis-failure=>not-equal', snot(acc))
            return
        H.check('True=>checker-True-and-prefix/suffix-equal', implies(acc, sand(v, e1, e2)))
        H.check('True=>the-instructions-the-block-is-split-at-coincide', implies(acc, split_same))
        H.check('checker-and-items-agree=>True', implies(sand(v, e1, e2, split_same), acc))
        tr = H.it.trace
        sf = [t for t in tr if t[0] == 'sfs']
        H.check('new-block-analysed-under-alreadyOptimized-name', any(t[1] is new and t[2] == "alreadyOptimized_new" for t in sf)
                and any(t[1] is old and t[2] == "old" for t in sf))
        H.check('name-restored', new.block_name == 'new')
        ver = [t for t in tr if t[0] == 'verify']
        H.check('checker-called-on-(old,new)-specs', len(ver) == 1 and ver[0][1].tag == 'sfs-of-old' and ver[0][2].tag == 'sfs-of-new')


# =====================================================================================================================
class GateCompareSameBlock(Case):
    """C05 'equal for a block compared with itself', at the level of the object: the tool passes the SAME AsmBlock twice
    (a rejected block is replaced by the original and compared again for the blocks CSV).  The old block must then be
    analysed under its own name, not under the temporary alreadyOptimized_ name of the new one (finding F53)"""
    prop = 'C05'
    tier = 'P'
    name = "compare_asm_block_asm_format(same object)"
    functions = (gasol_asm.compare_asm_block_asm_format,)

    def make_stubs(self):
        def st_sfs(it, block, params):
            it.trace.append(('sfs', block, block.block_name))
            return {"syrup_contract": Marker('sfs-under-' + block.block_name)}, [["OP", "LOG1"], ["LOG1", "OP"]]

        def st_verify(it, old, new):
            it.trace.append(('verify', old, new))
            # the checker pairs the specifications by name: new ones are looked up as alreadyOptimized_<old name>
            return ("alreadyOptimized_" + old.tag[len('sfs-under-'):] == new.tag[len('sfs-under-'):]), "Different number of subblocks"
        return {'gasol_asm.compute_original_sfs_with_simplifications': st_sfs,
                'verification.sfs_verify.verify_block_from_list_of_sfs': st_verify,
                'gasol_asm.verify_block_from_list_of_sfs': st_verify}

    def run(self, H):
        b = Blk('b')
        b.instructions = [_Item(disasm="ADD", value=None), _Item(disasm="ASSIGNIMMUTABLE", value="1")]
        tok = EqTok(True)
        b.instructions_initial_bytecode = lambda: tok
        b.instructions_final_bytecode = lambda: tok
        out = H.call(gasol_asm.compare_asm_block_asm_format, b, b, types.SimpleNamespace())
        H.check('raises-nothing', out.ok, info=repr(out.exc))
        H.check('name-restored', b.block_name == 'b')
        if not out.ok:
            return
        sf = [t[2] for t in H.it.trace if t[0] == 'sfs']
        H.check('old-block-analysed-under-its-own-name', sorted(sf) == ["alreadyOptimized_b", "b"], info=repr(sf))
        r = out.value
        H.check('a-block-compared-with-itself=>equal', isinstance(r, tuple) and len(r) == 2 and _b(r[0]) is True, info=repr(r))


# =====================================================================================================================
def contract_stubs(case, allow_raise):
    def st_opt(it, old_block, params):
        i = it.cfg['index'][old_block.tag]
        it.trace.append(('optimize', old_block))
        if allow_raise and it.cfg['opt_raises'][i]:
            raise it.cfg['exc']
        return it.cfg['opt'][i], it.cfg['log'][i], [Marker('csv%d' % i)]

    def st_cmp(it, old_block, new_block, params):
        i = it.cfg['index'][old_block.tag]
        it.trace.append(('compare', old_block, new_block))
        if allow_raise and it.cfg['cmp_raises'][i]:
            raise Boom("analysis of the re-check failed")
        return it.cfg['eq'][i], "reason"

    def upd(nm):
        def st(it, old_block, new_block):
            it.trace.append((nm, old_block, new_block))
        return st
    return {'gasol_asm.optimize_asm_block_asm_format': st_opt, 'gasol_asm.compare_asm_block_asm_format': st_cmp,
            'gasol_asm.update_gas_count': upd('gas'), 'gasol_asm.update_size_count': upd('size'),
            'gasol_asm.update_length_count': upd('length'),
            'gasol_asm.csv_from_asm_blocks': lambda it, a, b, p: [Marker('rows')],
            '_io.open': st_open, 'pandas.DataFrame': lambda it, *a, **k: DF(),
            'gasol_asm.parse_blocks_from_plain_instructions': lambda it, text, *a: list(it.cfg['blocks']),
            'sfs_generator.parser_asm.parse_blocks_from_plain_instructions': lambda it, text, *a: list(it.cfg['blocks'])}


def setup_blocks(H, n, allow_raise):
    blocks = [Blk('b%d' % i) for i in range(n)]
    cfg = dict(blocks=blocks, index=dict((b.tag, i) for i, b in enumerate(blocks)),
               opt=[Blk('opt%d' % i) for i in range(n)], log=[{"b%d_0" % i: Marker('ids%d' % i)} for i in range(n)],
               eq=[H.bool('eq%d' % i) for i in range(n)],
               opt_raises=[(H.choice('opt_raises%d' % i, [False, True]) if allow_raise else False) for i in range(n)],
               # compare_asm_block_asm_format never raises (its own contract, GateCompare): failures appear as eq = False
               cmp_raises=[False for i in range(n)])
    # the failure may be any exception, including ones without a message (bare assert / raise ValueError)
    excs = [Boom("optimizer failed"), AssertionError(), ValueError(), KeyError('k'), IndexError("i"), RecursionError()]
    cfg['exc'] = excs[H.choice('exception_kind', list(range(len(excs))))] if allow_raise else None
    H.it.cfg = cfg
    return blocks, cfg


def check_gate(H, prefix, blocks, cfg, emitted, log_dicts, tr, counters):
    """keep-or-revert: position i holds the optimized block if the re-check said equal, the *same* original block otherwise"""
    H.check(prefix + 'one-output-block-per-input-block', len(emitted) == len(blocks))
    if len(emitted) != len(blocks):
        return
    for i, b in enumerate(blocks):
        e = emitted[i]
        failed = cfg['opt_raises'][i] or cfg['cmp_raises'][i]
        if failed:
            H.check(prefix + 'failed-block-emitted-unchanged[%d]' % i, e is b)
            continue
        eq = cfg['eq'][i]
        if H.symbolic:
            is_eq = H.path.branch(sym.lift(eq))
        else:
            is_eq = bool(eq)
        if is_eq:
            H.check(prefix + 'verified=>optimized-block-emitted[%d]' % i, e is cfg['opt'][i])
            if log_dicts is not None:
                H.check(prefix + 'verified=>log-kept[%d]' % i, all(log_dicts.get(k) is v for k, v in cfg['log'][i].items()))
        else:
            H.check(prefix + 'not-verified=>original-block-kept[%d]' % i, e is b)
            if log_dicts is not None:
                H.check(prefix + 'not-verified=>log-dropped[%d]' % i, not any(k in log_dicts for k in cfg['log'][i]))
        for nm in counters:
            ups = [t for t in tr if t[0] == nm and t[1] is b]
            H.check(prefix + 'totals(%s)-count-the-emitted-block[%d]' % (nm, i), len(ups) == 1 and ups[0][2] is e)


class GateContract(Case):
    """optimize_asm_contract: keep-or-revert gate on every block of init code and runtime code; log entries only for verified
    blocks; totals are updated with the block that is actually emitted; everything else of the contract is a deep copy"""
    prop = 'C01'
    tier = 'P'
    name = "optimize_asm_contract(gate)"
    functions = (gasol_asm.optimize_asm_contract,)
    allow_raise = False
    max_paths = 4000

    def make_stubs(self):
        return contract_stubs(self, self.allow_raise)

    def run(self, H):
        blocks, cfg = setup_blocks(H, 4, self.allow_raise)
        c = AsmContract("file.sol:C")
        c.init_code = [blocks[0], blocks[1]]
        # two sub-assemblies with code: each keeps its own instruction stream
        c.data = {"0": {"code": [blocks[2]], "auxdata": "aux"}, "1": {"code": [blocks[3]]}}
        c.source_list = ["a.sol"]
        params = types.SimpleNamespace(forves_enabled=False)
        out = H.call(gasol_asm.optimize_asm_contract, c, params)
        H.check('raises-nothing', out.ok, info=repr(out.exc))
        if not out.ok:
            return
        new_c, seq_rows, log_dicts, blocks_rows = out.value
        tr = H.it.trace
        check_gate(H, 'init:', blocks[:2], dict(cfg, eq=cfg['eq'][:2], opt=cfg['opt'][:2], log=cfg['log'][:2],
                                                opt_raises=cfg['opt_raises'][:2], cmp_raises=cfg['cmp_raises'][:2]),
                   list(new_c.init_code), log_dicts, tr, ('gas', 'length'))
        for j, ident in ((2, "0"), (3, "1")):
            run = new_c.data[ident]["code"]
            check_gate(H, 'run%s:' % ident, blocks[j:j + 1], dict(cfg, eq=cfg['eq'][j:j + 1], opt=cfg['opt'][j:j + 1], log=cfg['log'][j:j + 1],
                                                                opt_raises=cfg['opt_raises'][j:j + 1], cmp_raises=cfg['cmp_raises'][j:j + 1]),
                       list(run), log_dicts, tr, ('gas', 'length', 'size'))
        H.check('frame(contract metadata copied, input contract untouched)',
                new_c is not c and new_c.contract_name == c.contract_name and new_c.source_list == ["a.sol"]
                and new_c.data["0"]["auxdata"] == "aux" and list(c.init_code) == blocks[:2] and c.data["0"]["code"] == [blocks[2]]
                and c.data["1"]["code"] == [blocks[3]] and set(new_c.data.keys()) == {"0", "1"})
        cmp_calls = [t for t in tr if t[0] == 'compare']
        H.check('every-block-re-verified-against-its-original',
                all(any(t[1] is b for t in cmp_calls) for i, b in enumerate(blocks) if not cfg['opt_raises'][i]))


class GateContractFaults(GateContract):
    """containment (C10): a failure of the optimizer or of the re-check for one block costs only that block"""
    prop = 'C10'
    name = "optimize_asm_contract(fault-containment)"
    allow_raise = True


class GateIsolated(Case):
    prop = 'C01'
    tier = 'P'
    name = "optimize_isolated_asm_block(gate)"
    functions = (gasol_asm.optimize_isolated_asm_block,)
    allow_raise = False

    def make_stubs(self):
        return contract_stubs(self, self.allow_raise)

    def run(self, H):
        blocks, cfg = setup_blocks(H, 2, self.allow_raise)
        params = types.SimpleNamespace(input_file="in.txt", block_name="", block_name_prefix="", optimization_enabled=True,
                                       optimized_file="out.txt", blocks_file="b.csv", seqs_file="s.csv")
        out = H.call(gasol_asm.optimize_isolated_asm_block, params)
        H.check('raises-nothing', out.ok, info=repr(out.exc))
        if not out.ok:
            return
        tr = H.it.trace
        writes = [t for t in tr if t[0] == 'write' and t[1] == 'out.txt']
        H.check('output-file-written-once', len(writes) == 1)
        if len(writes) != 1:
            return
        text = writes[0][2]
        # reconstruct which block was emitted at each position from the written text
        emitted = []
        parts = text.split('\n') if isinstance(text, str) else []
        for i, b in enumerate(blocks):
            if i < len(parts) and parts[i] == "plain(%s)" % b.tag:
                emitted.append(b)
            elif i < len(parts) and parts[i] == "plain(%s)" % cfg['opt'][i].tag:
                emitted.append(cfg['opt'][i])
            else:
                emitted.append(None)
        if len(parts) != len(blocks):
            emitted = emitted[:len(parts)]
        check_gate(H, '', blocks, cfg, emitted, None, tr, ('gas', 'length', 'size'))


class GateIsolatedFaults(GateIsolated):
    prop = 'C10'
    name = "optimize_isolated_asm_block(fault-containment)"
    allow_raise = True


# =====================================================================================================================
class GateFromLog(Case):
    """optimize_asm_from_log (C11): a rebuilt block is emitted only after the re-check said equal; otherwise ValueError is
    raised and no output file is written"""
    prop = 'C11'
    tier = 'P'
    name = "optimize_asm_from_log(gate)"
    functions = (gasol_asm.optimize_asm_from_log,)
    max_paths = 4000

    def make_stubs(self):
        def st_parse(it, path):
            return it.cfg['asm']

        def st_gen(it, block, json_log, params):
            it.trace.append(('gen', block, json_log))
            return Marker('sfs_all'), Marker('sfs_opt'), Marker('sbl'), Marker('seqs'), set()

        def st_from_log(it, block, sfs_all, sbl, seqs):
            i = it.cfg['index'][block.tag]
            it.trace.append(('from_log', block))
            return it.cfg['opt'][i]

        def st_cmp(it, old_block, new_block, params):
            i = it.cfg['index'][old_block.tag]
            it.trace.append(('compare', old_block, new_block))
            return it.cfg['eq'][i], "reason"

        def st_dumps(it, obj, *a, **k):
            it.trace.append(('dumps', obj))
            return "<json>"
        return {'gasol_asm.parse_asm': st_parse, 'sfs_generator.parser_asm.parse_asm': st_parse,
                'gasol_asm.generate_sfs_dicts_from_log': st_gen, 'gasol_asm.optimize_asm_block_from_log': st_from_log,
                'gasol_asm.compare_asm_block_asm_format': st_cmp, 'json.dumps': st_dumps, '_io.open': st_open,
                'sfs_generator.asm_json.AsmJSON.to_json': lambda it, self: ('ASMJSON', list(self.contracts))}

    def run(self, H):
        import sfs_generator.asm_json as aj
        blocks = [Blk('b0'), Blk('b1', optimizable=H.choice('b1_optimizable', [True, False])), Blk('b2'), Blk('b3')]
        cfg = dict(blocks=blocks, index=dict((b.tag, i) for i, b in enumerate(blocks)), opt=[Blk('r%d' % i) for i in range(4)],
                   eq=[H.bool('eq%d' % i) for i in range(4)])
        c = AsmContract("file.sol:C")
        c.init_code = [blocks[0], blocks[1]]
        # two sub-assemblies with code (a factory contract): each keeps exactly its own blocks
        c.data = {"0": {"code": [blocks[2]]}, "1": {"code": [blocks[3]]}}
        noasm = AsmContract("file.sol:D", False)
        asm = aj.AsmJSON("v")
        asm._contracts = [c, noasm]
        cfg['asm'] = asm
        H.it.cfg = cfg
        log = {"anything": ["ADD_0"]}
        params = types.SimpleNamespace(input_file="in.json", optimized_file="out.json")
        out = H.call(gasol_asm.optimize_asm_from_log, params, log)
        tr = H.it.trace
        writes = [t for t in tr if t[0] == 'write']
        opens_w = [t for t in tr if t[0] == 'open' and 'w' in t[2]]
        need = [i for i, b in enumerate(blocks) if b._optimizable]
        all_eq = sand(*[cfg['eq'][i] for i in need])
        if H.symbolic:
            good = H.path.branch(sym.lift(all_eq)) if isinstance(all_eq, Sym) else bool(all_eq)
        else:
            good = bool(all_eq)
        if not good:
            H.check('some-block-not-verified=>ValueError', (not out.ok) and isinstance(out.exc, ValueError), info=repr(out))
            H.check('some-block-not-verified=>nothing-written', not writes and not opens_w)
            return
        H.check('all-verified=>no-error', out.ok, info=repr(out.exc))
        if not out.ok:
            return
        d = [t for t in tr if t[0] == 'dumps']
        ok = len(d) == 1 and isinstance(d[0][1], tuple) and len(d[0][1][1]) == 2 and len(writes) == 1
        H.check('document-written-once', ok)
        if not ok:
            return
        nc, nd = d[0][1][1]
        sections = [list(nc.init_code), list(nc.data["0"]["code"]), list(nc.data["1"]["code"])]
        H.check('every-code-section-holds-exactly-as-many-blocks-as-its-input-section', [len(x) for x in sections] == [2, 1, 1]
                and sorted(nc.data.keys()) == ["0", "1"], info=repr([len(x) for x in sections]))
        if [len(x) for x in sections] != [2, 1, 1]:
            return
        em = sections[0] + sections[1] + sections[2]
        for i, b in enumerate(blocks):
            if b._optimizable:
                H.check('verified-block-is-the-rebuilt-one[%d]' % i, em[i] is cfg['opt'][i])
                H.check('rebuilt-block-was-compared-with-its-original[%d]' % i,
                        any(t[0] == 'compare' and t[1] is b and t[2] is cfg['opt'][i] for t in tr))
            else:
                H.check('nothing-to-optimize=>copy-of-original[%d]' % i, getattr(em[i], 'origin', None) is b)
        H.check('contract-without-asm-passed-through', nd.contract_name == "file.sol:D" and not nd.has_asm_field)
        H.check('log-handed-unmodified-to-the-rebuild', all(t[2] is log for t in tr if t[0] == 'gen'))


class GateRebuildFromLog(Case):
    """rebuild_asm_block_from_log (C11, C10): the block rebuilt from the log is returned only after the re-check said equal; a block
    that cannot be analysed is kept (a copy) exactly when the log names none of its sub-blocks, otherwise the failure is raised"""
    prop = 'C11'
    tier = 'P'
    name = "optimize_asm_from_log(rebuild one block)"
    functions = (gasol_asm.rebuild_asm_block_from_log,)

    def make_stubs(self):
        def st_gen(it, block, json_log, params):
            it.trace.append(('gen', block))
            if it.cfg['gen_raises']:
                raise Boom("analysis impossible")
            return Marker('sfs_all'), Marker('sfs_opt'), Marker('sbl'), Marker('seqs'), set()

        def st_from_log(it, block, sfs_all, sbl, seqs):
            it.trace.append(('from_log', block))
            return it.cfg['opt']

        def st_cmp(it, old_block, new_block, params):
            it.trace.append(('compare', old_block, new_block))
            return it.cfg['eq'], "reason"
        return {'gasol_asm.generate_sfs_dicts_from_log': st_gen, 'gasol_asm.optimize_asm_block_from_log': st_from_log,
                'gasol_asm.compare_asm_block_asm_format': st_cmp}

    def run(self, H):
        blk = Blk('C_block_1')
        opt = Blk('rebuilt')
        entry = H.choice('log_entry', ['none', 'own-sub-block', 'other-block-with-longer-name'])
        log = {"D_block_0_0": ["ADD_0"]}
        if entry == 'own-sub-block':
            log["C_block_1_0"] = ["ADD_0"]
        elif entry == 'other-block-with-longer-name':
            log["C_block_10_0"] = ["ADD_0"]
        H.it.cfg = dict(gen_raises=H.choice('analysis', [False, True]), eq=H.bool('eq'), opt=opt)
        out = H.call(gasol_asm.rebuild_asm_block_from_log, blk, log, types.SimpleNamespace())
        tr = H.it.trace
        if H.it.cfg['gen_raises']:
            if entry == 'own-sub-block':
                H.check('analysis-failure-of-a-logged-block=>raised', (not out.ok) and isinstance(out.exc, Boom), info=repr(out))
            else:
                H.check('analysis-failure-of-an-unlogged-block=>kept', out.ok and isinstance(out.value, Blk) and out.value.origin is blk, info=repr(out))
                H.check('nothing-rebuilt-for-it', not [t for t in tr if t[0] in ('from_log', 'compare')])
            return
        eq = _b(H.it.cfg['eq'])
        if H.symbolic:
            good = H.path.branch(sym.lift(eq)) if isinstance(eq, Sym) else bool(eq)
        else:
            good = bool(eq)
        if good:
            H.check('verified=>the-rebuilt-block-is-returned', out.ok and out.value is opt, info=repr(out))
        else:
            H.check('not-verified=>ValueError', (not out.ok) and isinstance(out.exc, ValueError), info=repr(out))
        cmp_ = [t for t in tr if t[0] == 'compare']
        H.check('re-check-called-on-(block, rebuilt)', len(cmp_) == 1 and cmp_[0][1] is blk and cmp_[0][2] is opt)


def cases(tier='quick'):
    return [GateOptimizeBlock(), GateCompare(), GateCompareSameBlock(), GateContract(), GateContractFaults(), GateIsolated(), GateIsolatedFaults(),
            GateFromLog(), GateRebuildFromLog(), GateOptimizeBlockBaseline()], {}
