"""C05 - the built-in equivalence checkers never accept distinguishable blocks.

compare_variables (verification/sfs_verify.py) is verified by recursion-on-contract: one call frame with arbitrary
symbolic arguments, recursive calls replaced by the function's own contract.

Semantic model of one frame (fixed valuation rho of the source stack and fixed state sigma):
  den_o, den_p : Val -> Int        denotation of a variable in the original / optimized specification
  int constants denote themselves; a source-stack variable denotes rho(v) in both (the source stacks are equal);
  a variable produced by instruction E denotes opsem_n(E.disasm, den(E.inpt_sk)...) or pushsem(E.disasm, E.value);
  opsem_2(d, a, b) = opsem_2(d, b, a) whenever an instruction with disasm d carries commutative = True (wf).
The user_instrs lists are only observed through filter(lambda x: v in x["outpt_sk"], L); under wf (unique producer)
a two-element symbolic spine [E, X] covers every behaviour of the frame.
"""
import z3

from pyvc import sym
from pyvc.sym import Sym, Val, WORD, sand, sor, snot, implies, sym_eq
from pyvc.harness import Case
from . import common  # noqa: F401
import verification.sfs_verify as sv
import verification.utils_verify as uv

den_o = z3.Function('den_o', Val, z3.IntSort())
den_p = z3.Function('den_p', Val, z3.IntSort())
rho = z3.Function('rho_src', Val, z3.IntSort())
in_src = z3.Function('in_src', Val, z3.BoolSort())
S = z3.StringSort()
I = z3.IntSort()
opsem = {0: z3.Function('opsem0', S, I), 1: z3.Function('opsem1', S, I, I), 2: z3.Function('opsem2', S, I, I, I),
         3: z3.Function('opsem3', S, I, I, I, I), 4: z3.Function('opsem4', S, I, I, I, I, I)}
pushsem = z3.Function('pushsem', S, Val, I)
comm_op = z3.Function('comm_op', S, z3.BoolSort())


class SrcStack(object):
    """the (equal) source stack of both specifications, observed through membership only"""

    def _pyvc_contains(self, item):
        return Sym(in_src(sym.to_val(item)))

    def __eq__(self, other):
        return other is self


def sym_instr(H, tag, arity, has_value):
    """an arbitrary well-formed user instruction"""
    d = {"id": H.str(tag + '_id'), "disasm": H.str(tag + '_disasm'), "opcode": "00",
         "inpt_sk": [H.val('%s_in%d' % (tag, k)) for k in range(arity)], "outpt_sk": [H.val(tag + '_out')],
         "gas": H.int(tag + '_gas'), "commutative": H.bool(tag + '_comm'), "storage": False}
    if has_value:
        d["value"] = [H.val(tag + '_value')]
    return d


def wf_val(H, v):
    """values are words, non-numeral names, never None"""
    e = sym.to_val(v)
    H.assume(z3.Not(Val.is_VNone(e)))
    H.assume(z3.Implies(Val.is_VI(e), z3.And(Val.iv(e) >= 0, Val.iv(e) < WORD)))
    H.assume(z3.Implies(Val.is_VS(e), z3.Not(sym.numeral(Val.sv(e)))))


def frame_axioms(H, den, E, arity, has_value):
    """semantics of the producer E in specification `den`"""
    out = sym.to_val(E["outpt_sk"][0])
    d = sym.lift(E["disasm"])
    ins = [den(sym.to_val(x)) for x in E["inpt_sk"]]
    if has_value:
        H.assume(den(out) == pushsem(d, sym.to_val(E["value"][0])))
    else:
        H.assume(den(out) == opsem[arity](d, *ins))
    # wf: the flag is set only for commutative opcodes, which are binary
    H.assume(z3.Implies(sym.lift(E["commutative"]), comm_op(d)))
    if arity == 2:
        H.assume(z3.Implies(comm_op(d), opsem[2](d, ins[0], ins[1]) == opsem[2](d, ins[1], ins[0])))
    else:
        H.assume(z3.Not(sym.lift(E["commutative"])))
    # produced variables are neither ints nor source variables
    H.assume(z3.And(Val.is_VS(out), z3.Not(in_src(out))))


def leaf_axioms(H, v):
    e = sym.to_val(v)
    H.assume(z3.Implies(Val.is_VI(e), z3.And(den_o(e) == Val.iv(e), den_p(e) == Val.iv(e))))
    H.assume(z3.Implies(in_src(e), z3.And(den_o(e) == rho(e), den_p(e) == rho(e), Val.is_VS(e))))


def stub_compare_variables(it, vo, vp, src_o, src_p, ud_o, ud_p):
    """the function's own contract, used for the recursive calls: True => equal denotations; never raises"""
    r = it.path.fresh_bool('rec')
    it.path.assume(z3.Implies(r.e, den_o(sym.to_val(vo)) == den_p(sym.to_val(vp))))
    it.trace.append(('rec', vo, vp))
    return r, "reason"


class CompareVariables(Case):
    prop = 'C05'
    tier = 'P'
    functions = (sv.compare_variables, uv.is_integer)
    stubs = {'verification.sfs_verify.compare_variables': stub_compare_variables}
    native_cover = False
    max_paths = 6000
    assumptions = ("wf(spec): unique producer per variable, arity fixed by disasm, commutative flag only on commutative binary opcodes, "
                   "names are not numerals, equal source stacks",
                   "loads/hashes denote an uninterpreted function of their arguments in a fixed state (state agreement is the job of "
                   "compare_dependences / compare_storage_userdef_ins)",
                   "the user_instrs lists are observed only through filter(lambda x: v in x['outpt_sk'], L) (checked syntactically)")

    def __init__(self, ar_o, ar_p, val_o, val_p):
        self.cfg = (ar_o, ar_p, val_o, val_p)
        self.name = "compare_variables[arity=%d/%d,value=%d/%d]" % (ar_o, ar_p, val_o, val_p)

    def run(self, H):
        if not H.symbolic:
            return
        ar_o, ar_p, val_o, val_p = self.cfg
        vo, vp = H.val('var_origin'), H.val('var_opt')
        src = SrcStack()
        Eo, Xo = sym_instr(H, 'Eo', ar_o, val_o), sym_instr(H, 'Xo', 1, False)
        Ep, Xp = sym_instr(H, 'Ep', ar_p, val_p), sym_instr(H, 'Xp', 1, False)
        for v in [vo, vp] + Eo["inpt_sk"] + Ep["inpt_sk"] + Eo["outpt_sk"] + Ep["outpt_sk"] + Xo["outpt_sk"] + Xp["outpt_sk"]:
            wf_val(H, v)
            leaf_axioms(H, v)
        frame_axioms(H, den_o, Eo, ar_o, val_o)
        frame_axioms(H, den_p, Ep, ar_p, val_p)
        # wf: unique producer; a non-source, non-integer variable has a producer
        eo, xo, ep, xp = [sym.to_val(d["outpt_sk"][0]) for d in (Eo, Xo, Ep, Xp)]
        H.assume(z3.And(eo != xo, ep != xp))
        a, b = sym.to_val(vo), sym.to_val(vp)
        H.assume(z3.Implies(z3.And(Val.is_VS(a), z3.Not(in_src(a))), a == eo))
        H.assume(z3.Implies(z3.And(Val.is_VS(b), z3.Not(in_src(b))), z3.Or(b == ep, b == xp)))
        H.assume(z3.Implies(b == xp, den_p(b) == opsem[1](sym.lift(Xp["disasm"]), den_p(sym.to_val(Xp["inpt_sk"][0])))))
        H.assume(z3.And(Val.is_VS(xo), z3.Not(in_src(xo)), Val.is_VS(xp), z3.Not(in_src(xp))))
        # wf: same disasm => same arity and same kind (value / operands)
        if (ar_o, val_o) != (ar_p, val_p):
            H.assume(sym.lift(Eo["disasm"]) != sym.lift(Ep["disasm"]))
        if ar_p != 1 or val_p:
            H.assume(sym.lift(Xp["disasm"]) != sym.lift(Ep["disasm"]))
        if ar_o != 1 or val_o:
            H.assume(sym.lift(Xp["disasm"]) != sym.lift(Eo["disasm"]))
        out = H.call(sv.compare_variables, vo, vp, src, src, [Eo, Xo], [Ep, Xp])
        H.check('raises-nothing', out.ok, info=repr(out.exc))
        if not out.ok:
            return
        r = out.value
        ok = isinstance(r, tuple) and len(r) == 2
        H.check('returns-pair', ok)
        if not ok:
            return
        acc = sym.truth(r[0]) if isinstance(r[0], Sym) else bool(r[0])
        H.check('True=>equal-denotation', implies(acc, Sym(den_o(a) == den_p(b))))


class CompareVariablesReflexive(Case):
    """compare_variables(v, v) on identical specifications answers True (given reflexive recursive calls)"""
    prop = 'C05'
    tier = 'P'
    functions = (sv.compare_variables,)
    native_cover = False

    def __init__(self, arity, has_value):
        self.cfg = (arity, has_value)
        self.name = "compare_variables:reflexive[arity=%d,value=%d]" % (arity, has_value)

    def make_stubs(self):
        def st(it, vo, vp, *rest):
            same = sym.sym_eq(vo, vp)
            r = it.path.fresh_bool('rec')
            it.path.assume(z3.Implies(sym.lift(same) if isinstance(same, Sym) else z3.BoolVal(bool(same)), r.e))
            return r, "reason"
        return {'verification.sfs_verify.compare_variables': st}

    def run(self, H):
        if not H.symbolic:
            return
        arity, has_value = self.cfg
        v = H.val('var')
        wf_val(H, v)
        src = SrcStack()
        E, X = sym_instr(H, 'E', arity, has_value), sym_instr(H, 'X', 1, False)
        for x in E["inpt_sk"] + E["outpt_sk"] + X["outpt_sk"]:
            wf_val(H, x)
        e, x = sym.to_val(E["outpt_sk"][0]), sym.to_val(X["outpt_sk"][0])
        a = sym.to_val(v)
        H.assume(z3.And(e != x, Val.is_VS(e), Val.is_VS(x), z3.Not(in_src(e)), z3.Not(in_src(x))))
        H.assume(z3.Implies(z3.And(Val.is_VS(a), z3.Not(in_src(a))), a == e))
        H.assume(z3.Implies(in_src(a), Val.is_VS(a)))
        out = H.call(sv.compare_variables, v, v, src, src, [E, X], [E, X])
        H.check('raises-nothing', out.ok, info=repr(out.exc))
        if out.ok:
            r = out.value[0]
            H.check('equal-to-itself', sym.truth(r) if isinstance(r, Sym) else bool(r))


def syntactic_frame_ok():
    """user_def_origin / user_def_opt are used in compare_variables only as the list argument of filter(...) whose
    lambda tests membership in x['outpt_sk'], or passed on unchanged to the recursive call"""
    import ast
    from pyvc import interp
    node = interp.function_ast(sv.compare_variables)
    ok = True
    uses = []
    params = [a.arg for a in node.args.args]
    if len(params) != 6:
        return False
    ud = set(params[4:6])         # the two user-instruction lists, whatever they are called
    for n in ast.walk(node):
        if isinstance(n, ast.Name) and n.id in ud and isinstance(n.ctx, ast.Load):
            uses.append(n)
    parents = {}
    for p in ast.walk(node):
        for c in ast.iter_child_nodes(p):
            parents[c] = p
    for u in uses:
        p = parents[u]
        if isinstance(p, ast.Call) and isinstance(p.func, ast.Name) and p.func.id == 'filter' and p.args[1] is u:
            lam = p.args[0]
            txt = ast.unparse(lam)
            if not (isinstance(lam, ast.Lambda) and "['outpt_sk']" in txt.replace('"', "'") and ' in ' in txt):
                ok = False
        elif isinstance(p, ast.comprehension) and p.iter is u and isinstance(p.target, ast.Name):
            # [x for x in user_def if v in x['outpt_sk']] : the same selection written as a comprehension
            comp = parents[p]
            conds = " and ".join(ast.unparse(c) for c in p.ifs).replace('"', "'")
            if not (isinstance(comp, (ast.ListComp, ast.GeneratorExp)) and isinstance(comp.elt, ast.Name) and comp.elt.id == p.target.id
                    and len(comp.generators) == 1 and (" in %s['outpt_sk']" % p.target.id) in conds):
                ok = False
        elif isinstance(p, ast.Call) and isinstance(p.func, ast.Name) and p.func.id == node.name:
            pass
        else:
            ok = False
    return ok and len(uses) > 0


class FrameSyntactic(Case):
    prop = 'C05'
    tier = 'P'
    name = "compare_variables:user_instrs-observed-through-producer-filter"
    functions = (sv.compare_variables,)
    stand_in = 'checker-on-mutants'

    def run(self, H):
        if H.symbolic:
            if not syntactic_frame_ok():
                # the argument that lifts the two-record cases to arbitrary tables no longer applies to this revision:
                # nothing is refuted by that, the clause is undecided (the bounded checker-on-mutants case stands in)
                from pyvc.sym import Unsupported
                raise Unsupported("compare_variables uses its instruction tables in a way the frame argument does not cover")
            H.check('syntactic-frame', True)


def cases(tier='quick'):
    cs = [FrameSyntactic()]
    kinds = [(0, False), (1, False), (2, False), (3, False), (0, True)]
    for (ao, vo) in kinds:
        for (ap, vp) in kinds:
            cs.append(CompareVariables(ao, ap, int(vo), int(vp)))
    for (a, v) in kinds:
        cs.append(CompareVariablesReflexive(a, int(v)))
    return cs, {}


# ---------------------------------------------------------------------------------------------------------------
# bounded stand-in: the whole checker on semantic mutants of a block corpus, judged by the reference executor
from pyvc.harness import NativeCase
from specs import evmexec
from .common import spec_of_block, utils, plain_names, cleanup_tmp
from . import blocks as corpus


class FrontEndFailure(Exception):
    pass


def checker_verdict(instrs_a, instrs_b, depth, **opts):
    from . import pipeline
    pipeline.reset_sticky_globals()
    try:
        old, _ = spec_of_block(instrs_a, block_name="b", input_stack=depth, **opts)
        old = dict(old)
        new, _ = spec_of_block(instrs_b, block_name="alreadyOptimized_b", input_stack=depth, **opts)
        new = dict(new)
    except BaseException as e:
        # specification generation failed: no specification reaches the checker (that failure is C10's subject)
        raise FrontEndFailure(repr(e))
    return sv.verify_block_from_list_of_sfs(old, new)


def block_items(instrs):
    return evmexec.parse_plain(instrs)


class CheckerOnMutants(NativeCase):
    """forall B in corpus, forall semantic mutants B' distinguishable from B on some sampled state:
    checker(B, B') != equal ; checker(B, B) = equal and raises nothing"""
    prop = 'C05'
    name = "checker-on-mutants"
    functions = (sv.verify_block_from_list_of_sfs, sv.are_equals, sv.compare_target_stack, sv.compare_dependences,
                 sv.compare_storage_userdef_ins, sv.search_val_in_userdef, sv.compare_variables)
    assumptions = ("bounded: %d corpus blocks x mutation operators (operand swap, opcode substitution, constant change, DUP/SWAP index, "
                   "dropped/duplicated/reordered store); distinguishability decided by the reference executor on sampled states" % len(corpus.BASE_BLOCKS),)
    weight = 50

    def run_native(self, tier):
        n_states = 16 if tier == 'quick' else 64
        # a checker that raises on a pair refuses it (the drivers turn the exception into "not equal"): that is not an acceptance
        # and no clause of the property; the refusals are counted and listed in the evidence
        self.refusals = []
        fuzz = corpus.random_blocks(20 if tier == 'quick' else 250, seed=29, maxlen=14) + corpus.random_blocks(15 if tier == 'quick' else 200, seed=31, profile='memory', maxlen=14)
        for b in list(corpus.BASE_BLOCKS) + SPLIT_CORPUS + fuzz:
            instrs = corpus.tokens(b)
            try:
                depth = utils.compute_stack_size(plain_names(instrs))
            except Exception:
                continue
            if depth > 20:
                continue
            for opts in (dict(), dict(simplification=False)) if tier != 'quick' else (dict(),):
                try:
                    eq, reason = checker_verdict(instrs, instrs, depth, **opts)
                    self.ob('reflexive(B,B)=equal', bool(eq), inputs=dict(block=b, opts=opts), info=reason)
                except FrontEndFailure:
                    continue
                except BaseException as e:
                    self.refusals.append(dict(inputs=dict(block=b, opts=opts), info=repr(e)))
                    continue
                for kind, m in corpus.mutants(instrs):
                    d2 = max(depth, utils.compute_stack_size(plain_names(m)))
                    try:
                        witness = evmexec.distinguishable(block_items(instrs), block_items(m), d2, n=n_states)
                    except KeyError:
                        continue
                    if witness is None:
                        continue        # not shown distinguishable: no claim
                    try:
                        eq, reason = checker_verdict(instrs, m, d2, **opts)
                    except FrontEndFailure:
                        continue
                    except BaseException as e:
                        # a crash on a well-formed pair is a refusal, not an acceptance; recorded separately
                        self.refusals.append(dict(inputs=dict(block=b, mutant=' '.join(m), kind=kind, opts=opts), info=repr(e)))
                        continue
                    self.ob('distinguishable=>not-equal', not eq,
                            inputs=dict(block=b, mutant=' '.join(m), kind=kind, opts=opts,
                                        witness=dict(stack=[hex(x) for x in witness[0]], seed=witness[1], why=witness[2])))
        # explicit pairs: the same operations with their operands, executed in another order (identifiers of the two
        # specifications coincide literally although they name different operations - finding F26)
        for a, b in REORDERED_PAIRS:
            ia, ib = corpus.tokens(a), corpus.tokens(b)
            d2 = max(utils.compute_stack_size(plain_names(ia)), utils.compute_stack_size(plain_names(ib)))
            witness = evmexec.distinguishable(block_items(ia), block_items(ib), d2, n=n_states)
            if witness is None:
                continue
            try:
                eq, reason = checker_verdict(ia, ib, d2)
            except FrontEndFailure:
                continue
            except BaseException as e:
                self.refusals.append(dict(inputs=dict(block=a, mutant=b, kind='reordered-operations'), info=repr(e)))
                continue
            self.ob('distinguishable=>not-equal', not eq,
                    inputs=dict(block=a, mutant=b, kind='reordered-operations',
                                witness=dict(stack=[hex(x) for x in witness[0]], seed=witness[1], why=witness[2])))
        # the gate the tool itself uses (compare_asm_block_asm_format) on pairs that differ in an instruction at which blocks are
        # split: those instructions belong to no specification (finding F34)
        for a, b, o in SPLIT_PAIRS:
            ia, ib = corpus.tokens(a), corpus.tokens(b)
            d2 = max(utils.compute_stack_size(plain_names(ia)), utils.compute_stack_size(plain_names(ib)))
            try:
                witness = evmexec.distinguishable(block_items(ia), block_items(ib), d2, n=n_states)
            except KeyError:
                continue
            if witness is None:
                continue
            try:
                eq, reason = gate_verdict(ia, ib, o)
            except BaseException as e:
                self.refusals.append(dict(inputs=dict(block=a, mutant=b, kind='split-instruction', opts=o), info=repr(e)))
                continue
            self.ob('distinguishable=>not-equal', not eq,
                    inputs=dict(block=a, mutant=b, kind='split-instruction', opts=o,
                                witness=dict(stack=[hex(x) for x in witness[0]], seed=witness[1], why=witness[2])))
        # the tool's own gate on one block object given as both arguments (what optimize_asm_contract does with a rejected block,
        # finding F53) and on two parses of the same text
        for b in list(corpus.BASE_BLOCKS)[:12 if tier == 'quick' else None] + [p[0] for p in SPLIT_PAIRS[:5]]:
            ia = corpus.tokens(b)
            for same_object in (True, False):
                try:
                    eq, reason = gate_verdict(ia, ia, [], same_object=same_object)
                except BaseException as e:
                    self.refusals.append(dict(inputs=dict(block=b, kind='gate-reflexive', same_object=same_object), info=repr(e)))
                    continue
                if str(reason).startswith("Comparison could not be performed"):
                    continue            # the front end cannot analyse the block: a refusal, counted by C10
                self.ob('gate:reflexive(B,B)=equal', bool(eq), inputs=dict(block=b, same_object=same_object), info=reason)
        cleanup_tmp()
        self.assumptions = tuple(self.assumptions) + ("%d pairs on which the checker raised instead of answering (refusals, e.g. %s)"
                                                       % (len(self.refusals), [r['info'] for r in self.refusals[:2]]),)


def gate_verdict(instrs_a, instrs_b, opts=(), same_object=False):
    """compare_asm_block_asm_format on two blocks given as token lists"""
    from . import pipeline
    import gasol_asm as ga
    import sfs_generator.parser_asm as parser_asm
    pipeline.reset_sticky_globals()
    params = pipeline.make_params(['x.txt', '-bl', '-greedy'] + list(opts))
    if params.split_storage:
        ga.constants.append_store_instructions_to_split()
    try:
        ba = parser_asm.parse_blocks_from_plain_instructions(pipeline.plain_text(instrs_a))[0]
        bb = ba if same_object else parser_asm.parse_blocks_from_plain_instructions(pipeline.plain_text(instrs_b))[0]
        import io, contextlib
        with contextlib.redirect_stdout(io.StringIO()), contextlib.redirect_stderr(io.StringIO()):
            return ga.compare_asm_block_asm_format(ba, bb, params)
    finally:
        pipeline.reset_sticky_globals()


SPLIT_PAIRS = [("PUSH 20 PUSH 0 PUSH 0 CALLDATACOPY", "PUSH 20 PUSH 0 PUSH 0 CODECOPY", []),
               ("PUSH 20 PUSH 0 PUSH 0 CALLDATACOPY", "PUSH 20 PUSH 0 PUSH 0 RETURNDATACOPY", []),
               ("CALL", "CALLCODE", []), ("DELEGATECALL", "STATICCALL", []), ("DUP1 DUP3 LOG1 ADD", "DUP1 DUP3 CALLDATACOPY ADD", []),
               ("PUSH 1 PUSH 2 SSTORE PUSH 3", "PUSH 1 PUSH 2 MSTORE PUSH 3", ["-storage"]),
               ("DUP2 DUP2 LOG0 ADD", "DUP2 DUP2 LOG0 ADD", [])]


_SHUFFLE = "SWAP2 SWAP1 SWAP3 SWAP1"        # (a b c d) -> (c d a b)
REORDERED_PAIRS = [("SSTORE SSTORE", _SHUFFLE + " SSTORE SSTORE"), ("MSTORE MSTORE", _SHUFFLE + " MSTORE MSTORE"),
                   ("MSTORE8 MSTORE", _SHUFFLE + " MSTORE MSTORE8"), ("MSTORE MSTORE8", _SHUFFLE + " MSTORE8 MSTORE"),
                   ("MSTORE8 MSTORE8", _SHUFFLE + " MSTORE8 MSTORE8"),
                   ("SLOAD SWAP2 SWAP1 SSTORE", "SWAP2 SWAP1 SWAP2 SWAP1 SSTORE SLOAD".replace("SWAP2 SWAP1 SWAP2 SWAP1", "SWAP1 SWAP2")),
                   ("MLOAD SWAP2 SWAP1 MSTORE", "SWAP1 SWAP2 MSTORE MLOAD"),
                   ("DUP2 DUP2 SSTORE SSTORE SSTORE", "DUP2 DUP2 SSTORE SWAP2 SWAP1 SWAP3 SWAP1 SSTORE SSTORE"),
                   ("PUSH 0 PUSH 0 MSTORE MSIZE", "MSIZE PUSH 0 PUSH 0 MSTORE"), ("MSIZE DUP2 MLOAD", "DUP1 MLOAD MSIZE SWAP1"),
                   # two loads of one position, one before and one after a store to a position that may be the same (finding F40)
                   ("DUP1 MLOAD SWAP1 PUSH 5 DUP4 MSTORE MLOAD", "DUP1 MLOAD SWAP1 PUSH 5 DUP4 MSTORE MLOAD SWAP1"),
                   ("DUP1 SLOAD SWAP1 PUSH 5 DUP4 SSTORE SLOAD", "DUP1 SLOAD SWAP1 PUSH 5 DUP4 SSTORE SLOAD SWAP1")]


_old_cases = cases


def cases(tier='quick'):
    cs, meta = _old_cases(tier)
    cs.append(CheckerOnMutants())
    return cs, meta


# ---------------------------------------------------------------------------------------------------------------
# external-checker adapter
import verification.forves_verification as fv
from .gates import DummyFile, st_open


class ForvesGate(Case):
    """compare_forves answers "true" only if both sequences were rendered (forves_format returned text) and either there was
    nothing to compare or the external checker printed true and not false"""
    prop = 'C05'
    tier = 'P'
    name = "compare_forves(gate)"
    functions = (fv.compare_forves,)

    def make_stubs(self):
        def st_format(it, a, b):
            it.trace.append(('format', a, b))
            return it.cfg['rendering']

        def st_run(it, cmd):
            it.trace.append(('run', cmd))
            return it.cfg['output']
        return {'verification.forves_verification.forves_format': st_format, 'verification.forves_verification.run_command': st_run,
                'tempfile.mkstemp': lambda it, *a, **k: (99, "/tmp/forves-in"), 'posix.close': lambda it, fd: None,
                'posix.remove': lambda it, p: None, '_io.open': st_open}

    def run(self, H):
        rendering = H.choice('rendering', [None, '', '#\nADD\nADD\n500'])
        output = H.choice('checker_output', ["true\n", "false\n", "parsing error\n", "true\nfalse\n", ""])
        H.it.cfg = dict(rendering=rendering, output=output)
        out = H.call(fv.compare_forves, "ADD", "ADD", H.choice('criteria', ["gas", "size"]), True)
        if out.ok and out.value == "true":
            H.check('true=>both-sequences-were-rendered', rendering is not None)
            H.check('true=>nothing-to-compare-or-checker-said-true', rendering == '' or ("true" in output and "false" not in output))
        elif out.ok:
            H.check('verdict-is-one-of-the-documented-strings', out.value in ("false", "parsing", "missing", "disabled"))
        if rendering is None:
            H.check('rendering-failure=>not-true', not (out.ok and out.value == "true"), info=repr(out))


def retokenize(seq):
    """tokens of one rendered sequence (PUSHn 0x.. / METAPUSH k 0x..) back to the plain form"""
    out = []
    i = 0
    while i < len(seq):
        t = seq[i]
        if re.fullmatch("PUSH([0-9]+)", t):
            out.append("PUSH " + seq[i + 1][2:].lstrip('0') if seq[i + 1][2:].lstrip('0') else "PUSH 0")
            i += 2
        elif t == "METAPUSH":
            out.append("META %s %s" % (seq[i + 1], seq[i + 2]))
            i += 3
        else:
            out.append(t)
            i += 1
    return out


import re


class ForvesRendering(NativeCase):
    """forves_format renders both sequences faithfully: every optimizable token of the input reappears, in order, with PUSH
    operands re-attached; an opcode the adapter does not know makes the rendering fail (None), never succeed"""
    prop = 'C05'
    name = "forves_format(rendering)"
    functions = (fv.forves_format, fv.str_to_list, fv.split_bytecode)

    def run_native(self, tier):
        import io, contextlib
        n = 0
        for b in list(corpus.BASE_BLOCKS) + SPLIT_CORPUS + ["SWAP1 JUMP", "PUSH 0 ADD JUMP", "JUMPDEST SWAP1 JUMP", "PUSH 1 PUSH 2 LOG0 PUSH 3",
                                                            "PUSH 1 LOG0 PUSH 2 PUSH 3", "NOT STOP"]:
            toks = corpus.tokens(b)
            plain = ' '.join(t if not t.startswith('PUSH ') else t for t in toks)
            with contextlib.redirect_stderr(io.StringIO()), contextlib.redirect_stdout(io.StringIO()):
                txt = fv.forves_format(plain, plain)
            n += 1
            if txt is None:
                # must be because of an opcode outside the adapter's vocabulary
                unknown = [t for t in toks if t.split()[0] not in fv.bytecode_vocab and not t.startswith('PUSH') and
                           t.split()[0] not in constants_sets()]
                self.ob('rendering-fails-only-for-opcodes-outside-the-vocabulary', bool(unknown), inputs=dict(block=b), info="no unknown opcode")
                continue
            lines = txt.split('\n') if txt else []
            segs = [lines[i:i + 4] for i in range(0, len(lines), 4)]
            rendered = []
            ok = True
            for sg in segs:
                if len(sg) != 4 or sg[0] != '#' or sg[3] != '500' or sg[1] != sg[2]:
                    ok = False
                    continue
                rendered += retokenize(sg[2].split(' '))
            want = [("PUSH " + (t.split()[1].lstrip('0') or '0')) if t.startswith('PUSH ') else t for t in toks if t.split()[0] not in constants_sets()]
            self.ob('rendered-tokens=input-tokens', ok and rendered == want, inputs=dict(block=b), info=dict(rendered=rendered, want=want))
        self.assumptions = ("bounded: %d corpus blocks; the external binary itself is outside the scope" % n,)


def constants_sets():
    from .common import constants
    return set(constants.split_block) | set(constants.end_block) | set(constants.beginning_block)


SPLIT_CORPUS = [
    "PUSH 3 SHR PUSH 0 DUP1 LOG0 PUSH 3 SHR PUSH 0 DUP1 LOG0", "DUP2 DUP2 SUB PUSH 0 DUP1 LOG0 DUP2 DUP2 SUB SWAP2 POP POP",
    "PUSH 5 PUSH 0 SSTORE PUSH 0 DUP1 LOG0 PUSH 5 PUSH 0 SSTORE", "DUP1 MLOAD PUSH 0 DUP1 LOG0 DUP1 MLOAD ADD",
    "SLT PUSH 0 DUP1 LOG0 PUSH 7 SWAP1 SDIV", "DUP1 DUP1 GAS POP SUB SWAP1 GAS POP PUSH 4 SWAP1 DIV ADD",
    "PUSH 1 PUSH 2 PUSH 0 DUP1 LOG0 ADD PUSH 0 DUP1 LOG0 PUSH 3 MUL",
]
corpus.BASE_BLOCKS_C05_EXTRA = SPLIT_CORPUS

_cases2 = cases


def cases(tier='quick'):
    cs, meta = _cases2(tier)
    cs += [ForvesGate(), ForvesRendering()]
    return cs, meta


# ---------------------------------------------------------------------------------------------------------------
# list-level checker functions with loop contracts (unbounded lists)
from pyvc.symlist import SymList, ValCodec, LoopSpec


class _TargetStackInv(LoopSpec):
    """the loop over the positions of the two target stacks, written with an index (while i < len(..): .. i += 1) or over
    zip(tgt_origin, tgt_opt): invariant  0 <= i <= n  and  forall j < i. den_o(tgt_origin[j]) = den_p(tgt_opt[j])"""

    def __init__(self, idx):
        self.idx_name = idx            # None: the position is the ghost index of a for loop

    def havoc(self, it, fr, k):
        if self.idx_name is not None:
            fr.locals[self.idx_name] = it.path.fresh_int('i')

    def inv(self, it, fr, k):
        ie = sym._as_int_expr(fr.locals[self.idx_name] if self.idx_name is not None else k)
        to, tp = it.cfg['to'], it.cfg['tp']
        j = z3.Int('j!inv')
        return z3.And(ie >= 0, ie <= to.n, to.n == tp.n,
                      z3.ForAll([j], z3.Implies(z3.And(j >= 0, j < ie), den_o(to.at(j)) == den_p(tp.at(j)))))


def _classify_target_loop(node):
    import ast
    if isinstance(node, ast.While):
        for n in ast.walk(node):
            if isinstance(n, ast.AugAssign) and isinstance(n.op, ast.Add) and isinstance(n.target, ast.Name):
                return _TargetStackInv(n.target.id), 'positions'
        return None
    return _TargetStackInv(None), 'positions'


class CompareTargetStack(Case):
    """compare_target_stack on target stacks of ANY length: True only if the lengths agree and every position has equal
    denotation (compare_variables used through its contract)"""
    prop = 'C05'
    tier = 'P'
    name = "compare_target_stack(unbounded)"
    functions = (sv.compare_target_stack,)
    stubs = {'verification.sfs_verify.compare_variables': stub_compare_variables}
    loops = {('verification.sfs_verify.compare_target_stack', '*'): _classify_target_loop}
    native_cover = False
    stand_in = 'checker-on-mutants'

    def run(self, H):
        if not H.symbolic:
            return
        to, tp = SymList(ValCodec(), name='tgt_o'), SymList(ValCodec(), name='tgt_p')
        src = SrcStack()
        jo = {"src_ws": src, "tgt_ws": to, "user_instrs": []}
        jp = {"src_ws": src, "tgt_ws": tp, "user_instrs": []}
        H.it.cfg = dict(to=to, tp=tp)
        out = H.call(sv.compare_target_stack, jo, jp)
        H.check('raises-nothing', out.ok, info=repr(out.exc))
        if not out.ok:
            return
        r = out.value
        acc = sym.truth(r[0]) if isinstance(r[0], Sym) else bool(r[0])
        j = z3.Int('j!post')
        post = z3.And(to.n == tp.n, z3.ForAll([j], z3.Implies(z3.And(j >= 0, j < to.n), den_o(to.at(j)) == den_p(tp.at(j)))))
        H.check('True=>same-length-and-equal-denotation-at-every-position', implies(acc, Sym(post)))


_cases3 = cases


def cases(tier='quick'):
    cs, meta = _cases3(tier)
    cs.append(CompareTargetStack())
    return cs, meta


# ---------------------------------------------------------------------------------------------------------------
# the three classes of instructions of a block the comparison relies on
class InstructionClasses(NativeCase):
    """finite family: on every instruction sequence of length <= N over {tag, JUMPDEST, ADD, PUSH, STOP, JUMP, RETURN, INVALID} the
    functions instructions_initial_bytecode / instructions_to_optimize_bytecode / instructions_final_bytecode return, in order, ALL
    the instructions whose name is in beginning_block / in neither set / in end_block - wherever they stand in the block.  The
    specifications only see the middle class, so the comparison of the other two is the only guard against a block-ending
    instruction that a log smuggles into the middle of a block (seed C11-6)"""
    prop = 'C05'
    name = "AsmBlock.instruction-classes(bounded)"

    def run_native(self, tier):
        import itertools
        from sfs_generator.asm_block import AsmBlock
        from sfs_generator.asm_bytecode import AsmBytecode
        from global_params import constants
        self.functions = (AsmBlock.instructions_initial_bytecode, AsmBlock.instructions_to_optimize_bytecode, AsmBlock.instructions_final_bytecode)
        vocab = ["tag", "JUMPDEST", "ADD", "PUSH", "STOP", "JUMP", "RETURN", "INVALID"]
        N = 3 if tier == 'quick' else 4
        n = 0
        for L in range(0, N + 1):
            for seq in itertools.product(vocab, repeat=L):
                blk = AsmBlock('c', 0, 'b', False)
                blk.instructions = [AsmBytecode(-1, -1, -1, nm, "1" if nm in ("PUSH", "tag") else None) for nm in seq]
                ins = blk.instructions
                exp = ([i for i in ins if i.disasm in constants.beginning_block],
                       [i for i in ins if i.disasm not in constants.beginning_block and i.disasm not in constants.end_block],
                       [i for i in ins if i.disasm in constants.end_block])
                got = (blk.instructions_initial_bytecode(), blk.instructions_to_optimize_bytecode(), blk.instructions_final_bytecode())
                n += 1
                same = all(len(g) == len(e) and all(a is b for a, b in zip(g, e)) for g, e in zip(got, exp))
                self.ob('the three classes are the three filters of the whole instruction list', same, inputs=dict(instructions=list(seq)),
                        info=[[i.disasm for i in g] for g in got])
        self.assumptions = ("bounded: %d instruction sequences (length <= %d over 8 names)" % (n, N),)


_cases4 = cases


def cases(tier='quick'):
    cs, meta = _cases4(tier)
    cs.append(InstructionClasses())
    return cs, meta


class InstructionClassesAnyLength(Case):
    """the same statement for instruction lists of ANY length: each of the three functions returns the filter of the WHOLE list
    self.instructions by membership of instruction.disasm in beginning_block / end_block / neither (AbstractSeq summary: the value
    returned is the derived sequence filter(S, p) of the block's own list S, and p is read off the AST)"""
    prop = 'C05'
    tier = 'P'
    name = "AsmBlock.instruction-classes(any length)"
    stand_in = "AsmBlock.instruction-classes(bounded)"
    assumptions = ("filter over a list is the list homomorphism (AbstractSeq summary); the predicate is identified by its AST",)

    def __init__(self):
        from sfs_generator.asm_block import AsmBlock
        self.functions = (AsmBlock.instructions_initial_bytecode, AsmBlock.instructions_to_optimize_bytecode, AsmBlock.instructions_final_bytecode)

    def run(self, H):
        if not H.symbolic:
            return
        from sfs_generator.asm_block import AsmBlock
        from .c08 import abstract_block
        b = abstract_block(H, 'B')
        S = b._instructions
        want = {'initial': (AsmBlock.instructions_initial_bytecode, ["ops=[In()]", "attr='beginning_block'"], ["end_block", "NotIn()"]),
                'final': (AsmBlock.instructions_final_bytecode, ["ops=[In()]", "attr='end_block'"], ["beginning_block", "NotIn()"]),
                'to-optimize': (AsmBlock.instructions_to_optimize_bytecode, ["BoolOp(op=And()", "attr='beginning_block'", "attr='end_block'", "ops=[NotIn()]"], ["ops=[In()]", "Or()"])}
        for nm, (fn, must, must_not) in want.items():
            before = set(S._derived)
            out = H.call(fn, b)
            H.check(nm + ':raises-nothing', out.ok, info=repr(out.exc))
            if not out.ok:
                continue
            new = [(k, d) for k, d in S._derived.items() if k not in before or d is out.value]
            mine = [(k, d) for k, d in S._derived.items() if d is out.value]
            H.check(nm + ':result-is-a-filter-of-the-whole-instruction-list', len(mine) == 1 and mine[0][0][0] == 'filter', info=repr(out.value))
            if len(mine) == 1:
                key = mine[0][0][1]
                H.check(nm + ':filter-predicate-is-the-class-membership-of-instruction.disasm',
                        "attr='disasm'" in key and all(m in key for m in must) and not any(m in key for m in must_not), info=key[:400])


_cases5 = cases


def cases(tier='quick'):
    cs, meta = _cases5(tier)
    cs.append(InstructionClassesAnyLength())
    return cs, meta
