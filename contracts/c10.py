"""C10 - every block is processed to completion; a failure costs at most that block.

Decided here: exception-freedom of the folding/rule kernels (safety + resource obligations of the C03 contracts, re-run),
containment of greedy failures (greedy_from_json / greedy_standalone / search_optimal), containment in the drivers
(gate cases, see registry), and a bounded native run of the whole pipeline on the corpus and on the edge blocks named by
the property.  Termination of the rule fixpoints and any time/memory proportionality are NOT decided (bounded runs only).
"""
import types
import z3

from pyvc import sym
from pyvc.sym import Sym
from pyvc.harness import Case, NativeCase
from . import c03, blocks as corpus, pipeline
from .gates import Boom, Marker
import greedy.block_generation as bg
import gasol_asm


class FakeEncoding(object):
    def __init__(self, it, fail_at):
        self.it, self.fail_at = it, fail_at
        self._final_stack = ['s(0)']
        self._initial_stack = ['s(0)']
        self._needed_in_stack_map = {}
        self._b0 = it.cfg['b0']

    def _m(self, nm, ret):
        self.it.trace.append(nm)
        if self.fail_at == nm:
            raise self.it.cfg['exc']
        return ret

    def target(self):
        return self._m('target', ([], []))

    def precompute(self, a, b):
        return self._m('precompute', ([], [], [], []))

    def compute(self, *a):
        return self._m('compute', (['POP'], ['POP']))

    def accept(self, ids):
        return self._m('accept', self.it.cfg['accept'])

    def correct(self, ids):
        return self._m('correct', self.it.cfg['correct'])


EXCS = [AssertionError("a"), KeyError("k"), IndexError("i"), RecursionError("r"), ValueError("v"), TypeError("t")]


class GreedyContainment(Case):
    """any exception raised inside the greedy search is turned into error = 1 with no sequence"""
    prop = 'C10'
    tier = 'P'
    name = "greedy_from_json(containment)"
    functions = (bg.greedy_from_json,)

    def make_stubs(self):
        def st_ctor(it, json_format):
            it.trace.append('ctor')
            if it.cfg['fail_at'] == 'ctor':
                raise it.cfg['exc']
            return FakeEncoding(it, it.cfg['fail_at'])
        return {'greedy.block_generation.SMSgreedy': st_ctor}

    def run(self, H):
        fail_at = H.choice('fail_at', [None, 'ctor', 'target', 'precompute', 'compute', 'accept', 'correct'])
        exc = EXCS[H.choice('exc', list(range(len(EXCS))))] if fail_at else None
        H.it.cfg = dict(fail_at=fail_at, exc=exc, b0=H.int('b0', 0, 50), accept=H.bool('accept'), correct=H.bool('correct'))
        data = {"init_progr_len": 10, "user_instrs": []}
        out = H.call(bg.greedy_from_json, data)
        if fail_at == 'ctor':
            # a failing constructor leaves `encoding` unbound and the final return raises NameError; both callers
            # (greedy_standalone, search_optimal) contain *any* exception of this function, which is what the
            # property needs and what greedy_standalone/search_optimal(containment) proves
            H.check('ctor-failure=>exception-or-error-flag', (not out.ok) or out.value[4] == 1)
            return
        H.check('raises-nothing', out.ok, info=repr(out.exc))
        if not out.ok:
            return
        js, enc, res, resids, error = out.value
        reached = fail_at in H.it.trace if fail_at not in (None, 'ctor') else (fail_at == 'ctor')
        if fail_at is not None and (fail_at == 'ctor' or fail_at in H.it.trace):
            H.check('failure=>error-flag-and-no-sequence', error == 1 and res is None and resids is None)
        else:
            H.check('no-failure=>error=0', error == 0)


class GreedyStandaloneContainment(Case):
    prop = 'C10'
    tier = 'P'
    name = "greedy_standalone/search_optimal(containment)"
    functions = (bg.greedy_standalone, gasol_asm.search_optimal)

    def make_stubs(self):
        def st_gfj(it, sfs, *a):
            it.trace.append('greedy_from_json')
            if it.cfg['raises']:
                raise it.cfg['exc']
            return sfs, None, ['POP'], it.cfg['ids'], it.cfg['error']

        class FakeOptimizer(object):
            def __init__(self, *a):
                pass

            def optimize_block(self):
                from smt_encoding.solver.solver import OptimizeOutcome
                return OptimizeOutcome.no_model, 0.0, None
        return {'greedy.block_generation.greedy_from_json': st_gfj, 'gasol_asm.greedy_from_json': st_gfj,
                'smt_encoding.block_optimizer.BlockOptimizer': lambda it, *a: FakeOptimizer(),
                'gasol_asm.BlockOptimizer': lambda it, *a: FakeOptimizer()}

    def run(self, H):
        raises = H.choice('raises', [False, True])
        exc = EXCS[H.choice('exc', list(range(len(EXCS))))] if raises else None
        err = H.choice('error', [0, 1])
        ids = ['POP', 'POP'] if err == 0 else None
        H.it.cfg = dict(raises=raises, exc=exc, error=err, ids=ids)
        out = H.call(bg.greedy_standalone, {"init_progr_len": 5})
        H.check('standalone:raises-nothing', out.ok, info=repr(out.exc))
        if out.ok:
            oc, t, seq = out.value
            H.check('standalone:failure=>error-outcome', (oc == "error") == bool(raises or err == 1))
        for ub, gr in ((True, False), (False, True)):
            params = types.SimpleNamespace(ub_greedy=ub, greedy=gr)
            sfs = {"init_progr_len": 5}
            out = H.call(gasol_asm.search_optimal, sfs, params, 10, "b")
            H.check('search_optimal[ub=%s,greedy=%s]:raises-nothing' % (ub, gr), out.ok, info=repr(out.exc))
            if out.ok and ub:
                oc, t, oids, gids = out.value
                H.check('search_optimal:greedy-failure=>no-greedy-ids', (gids is None) == bool(raises or err == 1))
                H.check('search_optimal:bound-lowered-only-to-a-witness-length',
                        sfs["init_progr_len"] == (2 if (not raises and err == 0) else 5))


EDGE_BLOCKS = [
    # more live stack elements than SWAP16 reaches (seed C10-6)
    "SWAP16 MSTORE OR SWAP14 DUP8 PUSH 5d DUP15 DIV DUP11 SSTORE GT POP MSTORE MSTORE ADD SSTORE LT AND ADD SSTORE SWAP2",
    "PUSH 0 PUSH 5 DIV", "PUSH 0 PUSH 5 MOD", "PUSH 0 PUSH 5 SDIV", "PUSH 0 PUSH 5 SMOD", "PUSH 0 PUSH 5 PUSH 7 ADDMOD", "PUSH 0 PUSH 5 PUSH 7 MULMOD",
    "PUSH ffffffffffffffffffffffffffffffffffffffffffffffffffffffffffffffff PUSH 1 ADD",
    "PUSH ffffffffffffffffffffffffffffffffffffffffffffffffffffffffffffffff PUSH 2 EXP",
    "PUSH 2 PUSH ffffffffffffffffffffffffffffffffffffffffffffffffffffffffffffffff EXP",
    "PUSH ffffffffffffffffffffffffffffffffffffffffffffffffffffffffffffffff PUSH ffffffffffffffffffffffffffffffffffffffffffffffffffffffffffffffff EXP",
    "PUSH 1 PUSH ffffffffffffffffffffffffffffffffffffffffffffffffffffffffffffffff SHL", "PUSH 1 PUSH ffffffffffffffffffffffffffffffffffffffffffffffffffffffffffffffff SHR",
    "PUSH 8000000000000000000000000000000000000000000000000000000000000000 PUSH ffffffffffffffffffffffffffffffffffffffffffffffffffffffffffffffff SAR",
    "PUSH ffffffffffffffffffffffffffffffffffffffffffffffffffffffffffffffff PUSH 100 SHL", "NOT NOT", "DUP1 NOT NOT ADD", "ISZERO ISZERO ISZERO ISZERO ISZERO ISZERO ISZERO",
    "DUP1 ISZERO ISZERO ISZERO ISZERO SWAP1 POP", "PUSH 0 NOT", "PUSH 0 ISZERO ISZERO", "PUSH 0 SUB", "PUSH 0 PUSH 0 SUB", "DUP1 DIV", "DUP1 SDIV", "DUP1 MOD", "PUSH 0 SHL", "PUSH 0 SHR",
    "PUSH 0 AND", "DUP1 AND", "DUP1 OR", "DUP1 XOR", "DUP1 EQ", "DUP1 LT", "DUP1 SGT", "PUSH 0 GT", "PUSH 0 SWAP1 LT", "PUSH 1 SWAP1 EXP", "PUSH 0 SWAP1 EXP",
    "DUP2 PUSH 0 MSTORE PUSH 20 PUSH 0 KECCAK256 SWAP1 POP POP", "PUSH 20 PUSH 0 KECCAK256 POP",
    "DUP16 DUP16 DUP16 DUP16 ADD ADD ADD", "DUP1 DUP2 DUP3 DUP4 DUP5 DUP6 DUP7 DUP8 DUP9 DUP10 DUP11 DUP12 DUP13 DUP14 DUP15 DUP16 ADD",
    "PUSH 1 PUSH 2 PUSH 3 PUSH 4 PUSH 5 PUSH 6 PUSH 7 PUSH 8 PUSH 9 PUSH a PUSH b PUSH c PUSH d PUSH e PUSH f PUSH 10 PUSH 11 PUSH 12 SWAP16 POP",
    "SWAP16 SWAP15 SWAP14 SWAP1 SWAP2", "POP POP POP", "CALLER CALLER CALLER ADD ADD", "ADDRESS BALANCE", "PUSH 0 MLOAD PUSH 0 MLOAD ADD",
    "PUSH 1 PUSH 0 SSTORE PUSH 2 PUSH 0 SSTORE", "DUP1 SLOAD DUP2 SLOAD ADD SWAP1 POP", "PUSH 40 MLOAD PUSH 40 MLOAD PUSH 40 MLOAD", "PUSH 0 PUSH 0 MSTORE8 PUSH 0 PUSH 1f MSTORE8 PUSH 0 MLOAD",
]


class PipelineTotality(NativeCase):
    """bounded: the whole per-block pipeline (greedy back end) on corpus + edge blocks under several option sets:
    terminates within the time budget, raises nothing, writes an output"""
    prop = 'C10'
    name = "pipeline-totality(bounded)"
    functions = (gasol_asm.execute_gasol, gasol_asm.optimize_isolated_asm_block, gasol_asm.optimize_asm_block_contained,
                 gasol_asm.compare_asm_block_asm_format)
    weight = 80
    BUDGET_S = 20

    def run_native(self, tier):
        optsets = [(), ('-size',), ('-storage',), ('-push0',)]
        if tier != 'quick':
            optsets += [('-length',), ('-partition',), ('-size', '-storage'), ('-length', '-no-simplification')]
        blocks = list(EDGE_BLOCKS) + list(corpus.BASE_BLOCKS) + corpus.rule_shape_blocks(1 if tier == 'quick' else 2)
        for b in blocks:
            text = pipeline.plain_text(corpus.tokens(b))
            for opts in optsets:
                r = pipeline.run_cli(text, opts, timeout=self.BUDGET_S)
                inp = dict(block=text, opts=list(opts))
                self.ob('terminates-within-%ds' % self.BUDGET_S, not r['timed_out'], inputs=inp, info="timeout")
                self.ob('raises-nothing', r['exc'] is None, inputs=inp, info=r['exc'])
                self.ob('output-written', r['output'] is not None or r['timed_out'] or r['exc'] is not None, inputs=inp)
        self.assumptions = ("bounded: %d blocks x %d option sets, %d s budget per run" % (len(blocks), len(optsets), self.BUDGET_S),)


class CleanStackTerminates(NativeCase):
    """bounded, function level: SMSgreedy.clean_stack on stacks of 10..20 elements, for every position (and pair of positions) of
    the elements that are no longer needed and several sets of solved positions: it returns within the budget, emits only POP and
    SWAP1..SWAP16, and the stack it returns is the one these instructions produce.  (Loop variant the code relies on: an iteration of
    the outer loop that does not leave it pops one element - seed C10-6 keeps looping when the element is deeper than SWAP16 reaches.)"""
    prop = 'C10'
    name = "SMSgreedy.clean_stack(terminates, bounded)"
    functions = (bg.SMSgreedy.clean_stack,)
    BUDGET_S = 2

    def run_native(self, tier):
        import itertools
        import signal

        class _TO(Exception):
            pass

        def _alarm(sig, frm):
            raise _TO()
        old = signal.signal(signal.SIGALRM, _alarm)
        n_runs = hangs = 0
        if not hasattr(bg, 'verbose'):
            bg.verbose = False            # module global the entry points set before any search
        try:
            sizes = (10, 12, 16, 17, 18, 19, 20) if tier == 'quick' else tuple(range(9, 23))
            for n in sizes:
                dead_sets = [()] + [(p,) for p in range(n)] + [(p, q) for p in range(n) for q in range(p + 1, n) if (q - p) in (1, 2, 5) or q >= 16]
                for dead in dead_sets:
                    for final_len, solved in ((n, ()), (n, (n - 1,)), (n - 2, (0, 1)), (n, tuple(range(n - 3, n)))):
                        g = bg.SMSgreedy.__new__(bg.SMSgreedy)
                        g._final_stack = ["f%d" % k for k in range(final_len)]
                        g.needs_in_stack_too_far = lambda o, st, ns: 15          # the function is only entered for a far operand
                        stack = ["v%d" % k for k in range(n)]
                        needed = dict((v, 0 if k in dead else 1) for k, v in enumerate(stack))
                        inp = dict(stack_size=n, no_longer_needed_positions=list(dead), final_stack_size=final_len, solved=list(solved))
                        n_runs += 1
                        signal.setitimer(signal.ITIMER_REAL, self.BUDGET_S)
                        try:
                            ops, out_stack, _ = g.clean_stack("op", list(stack), dict(needed), list(solved))
                        except _TO:
                            self.ob('returns-within-%ds' % self.BUDGET_S, False, inputs=inp, info="no result")
                            hangs += 1
                            if hangs >= 3:
                                self.assumptions = ("stopped after 3 calls that did not return",)
                                return
                            continue
                        except BaseException as e:
                            self.ob('raises-nothing', False, inputs=inp, info=repr(e))
                            continue
                        finally:
                            signal.setitimer(signal.ITIMER_REAL, 0)
                        self.ob('returns-within-%ds' % self.BUDGET_S, True, inputs=inp)
                        ref = list(stack)
                        okops = True
                        for o in ops:
                            if o == 'POP' and ref:
                                ref.pop(0)
                            elif o.startswith('SWAP') and o[4:].isdigit() and 1 <= int(o[4:]) <= 16 and int(o[4:]) < len(ref):
                                k = int(o[4:])
                                ref[0], ref[k] = ref[k], ref[0]
                            else:
                                okops = False
                                break
                        self.ob('only-executable-POP/SWAP1..16-and-the-returned-stack-is-their-result', okops and ref == list(out_stack), inputs=inp,
                                info=dict(ops=ops, returned=list(out_stack)))
        finally:
            signal.signal(signal.SIGALRM, old)
        self.assumptions = ("bounded: %d calls (stack sizes %s), %d s budget per call" % (n_runs, list(sizes), self.BUDGET_S),)


def cases(tier='quick'):
    cs3, _ = c03.cases(tier)
    cs = [c for c in cs3 if c.name.startswith(('evaluate_expression', 'apply_transform', 'check_size'))]
    cs += [GreedyContainment(), GreedyStandaloneContainment(), CleanStackTerminates(), PipelineTotality()]
    return cs, dict(edge_blocks=len(EDGE_BLOCKS))
