"""C04 - the greedy back end returns a sequence that realizes the specification.

Bounded stand-in (tier B; the emitters of SMSgreedy are not under a deductive contract yet): the real greedy_from_json is run on
the specifications the front end produces for the corpus, the memory corpus, the rule shapes and generated blocks (deep stacks,
many stores), under 3 splitting policies; whenever it reports error = 0 the returned ids are executed by the abstract stack
machine of specs/stackexec.py: no underflow, DUP/SWAP depths 1..16, every instruction finds exactly the operands the
specification names, every store exactly once, every ordering constraint respected, final stack = tgt_ws.
"""
import copy
import random

from pyvc.harness import NativeCase
from specs import stackexec
from .common import go, utils, spec_of_block, plain_names, cleanup_tmp
from . import blocks as corpus, pipeline
import greedy.block_generation as bg


def gen_blocks(rnd, n, maxlen=18):
    ops0 = ["CALLER", "CALLVALUE", "PUSH 0", "PUSH 1", "PUSH 20", "PUSH 40", "ADDRESS"]
    ops1 = ["ISZERO", "NOT", "MLOAD", "SLOAD", "POP"]
    ops2 = ["ADD", "SUB", "MUL", "AND", "LT", "MSTORE", "SSTORE", "MSTORE8", "SHL", "DIV", "EQ"]
    out = []
    for _ in range(n):
        L = rnd.randint(3, maxlen)
        b = []
        for _ in range(L):
            r = rnd.random()
            if r < 0.2:
                b.append(rnd.choice(ops0))
            elif r < 0.35:
                b.append("DUP%d" % rnd.randint(1, rnd.choice([3, 6, 16])))
            elif r < 0.5:
                b.append("SWAP%d" % rnd.randint(1, rnd.choice([2, 5, 16])))
            elif r < 0.65:
                b.append(rnd.choice(ops1))
            else:
                b.append(rnd.choice(ops2))
        out.append(' '.join(b))
    return out


class GreedyRealizes(NativeCase):
    prop = 'C04'
    name = "greedy_from_json(realizes the specification)"
    functions = (bg.greedy_from_json, bg.SMSgreedy.compute, bg.SMSgreedy.precompute, bg.SMSgreedy.target, bg.SMSgreedy.compute_one_with_stack,
                 bg.SMSgreedy.compute_memory_op, bg.SMSgreedy.compute_regular_op, bg.SMSgreedy.clean_stack, bg.sort_with_deps, bg.merge,
                 bg.add_needed_nostores_in_stack, bg.remove_nostores_and_rename, bg.needed_nostores)
    weight = 100

    def run_native(self, tier):
        from .c02 import MEM_BLOCKS, generated_mem_blocks
        from .c10 import EDGE_BLOCKS
        rnd = random.Random(2024)
        blocks = list(corpus.BASE_BLOCKS) + MEM_BLOCKS + EDGE_BLOCKS + corpus.rule_shape_blocks(1)[::3] + generated_mem_blocks('quick')[::3]
        blocks += gen_blocks(rnd, 400 if tier == 'quick' else 4000)
        deep = ["AND DUP15 GT", "DUP16 DUP16 SUB SWAP16 POP", "SWAP16 SWAP15 SUB SWAP14 ADD", "DUP14 DUP16 LT DUP15 SWAP16 SUB ADD",
                "DUP2 DUP2 MSTORE8 ADD", "DUP1 DUP3 MSTORE8 DUP2 DUP4 MSTORE8 POP POP POP"]
        blocks += deep
        # deep stacks: about 20 live elements, an element far down has to be dropped (clean_stack, finding F32)
        blocks += ["SWAP14 DIV DIV GT MUL OR OR XOR OR EQ GT MUL EQ SWAP12 GT LT SHL SWAP2 POP SWAP1"]
        bin_ops = ["ADD", "MUL", "SUB", "DIV", "AND", "OR", "XOR", "LT", "GT", "EQ", "SHL"]
        for _ in range(60 if tier == 'quick' else 600):
            t = ["SWAP%d" % rnd.randint(11, 16)] + [rnd.choice(bin_ops) for _ in range(rnd.randint(8, 12))] + ["SWAP%d" % rnd.randint(8, 14)]
            t += [rnd.choice(bin_ops) for _ in range(rnd.randint(3, 6))] + rnd.choice((["SWAP2", "POP", "SWAP1"], ["SWAP1", "POP"], ["POP"], ["SWAP3", "POP"]))
            blocks.append(" ".join(t))
        # several stores of one kind of which some are ordered (after a load of the same literal key) and some are free (seed C04-5:
        # a store that takes part in no ordering constraint is lost when another one does)
        for ld, st in (("SLOAD", "SSTORE"), ("MLOAD", "MSTORE")):
            k1, k2, k3 = ("1", "2", "3") if st == "SSTORE" else ("0", "40", "80")
            blocks += ["PUSH %s %s DUP2 PUSH %s %s DUP2 PUSH %s %s" % (k1, ld, k1, st, k2, st),
                       "PUSH %s %s DUP2 PUSH %s %s DUP2 PUSH %s %s" % (k1, ld, k2, st, k1, st),
                       "DUP1 PUSH %s %s PUSH %s %s DUP2 PUSH %s %s ADD" % (k2, st, k1, ld, k1, st),
                       "PUSH %s %s DUP2 PUSH %s %s DUP2 PUSH %s %s DUP2 PUSH %s %s" % (k1, ld, k1, st, k2, st, k3, st),
                       "PUSH %s %s PUSH %s %s DUP3 PUSH %s %s DUP3 PUSH %s %s DUP3 PUSH %s %s ADD" % (k1, ld, k2, ld, k2, st, k3, st, k1, st),
                       "DUP1 PUSH %s %s DUP1 PUSH %s %s PUSH %s %s DUP2 PUSH %s %s" % (k3, st, k2, st, k1, ld, k1, st)]
        # load, store of constants to the same literal key, load again through the stack, the two loaded values permuted in the final stack,
        # a last store (seed C04-7: everything scheduled before the load chosen first is dropped, a store with it)
        for ld, st in (("MLOAD", "MSTORE"), ("SLOAD", "SSTORE")):
            for perm in ("SWAP3 SWAP1 SWAP2", "SWAP1", "SWAP2", "SWAP2 SWAP1", "SWAP3", "SWAP1 SWAP2", ""):
                blocks.append(("PUSH 40 %s PUSH 80 PUSH 40 %s DUP2 %s %s %s" % (ld, st, ld, perm, st)).replace("  ", " "))
                blocks.append(("PUSH 40 %s PUSH 80 PUSH 60 %s PUSH 60 %s %s %s" % (ld, st, ld, perm, st)).replace("  ", " "))
        n = ok_runs = errs = 0
        for b in blocks:
            toks = corpus.tokens(b)
            try:
                depth = utils.compute_stack_size(plain_names(toks))
            except Exception:
                continue
            if depth > 26:
                continue
            for policy in ((dict(),) if tier == 'quick' else (dict(), dict(storage=True), dict(part=True))):
                pipeline.reset_sticky_globals()
                try:
                    spec, sub = spec_of_block(toks, **policy)
                except BaseException:
                    continue
                for key in spec:
                    sfs = copy.deepcopy(spec[key])
                    before = copy.deepcopy(sfs)
                    n += 1
                    try:
                        js, enc, res, resids, error = bg.greedy_from_json(sfs)
                    except BaseException as e:
                        continue            # containment is C10's subject
                    if error != 0:
                        errs += 1
                        continue
                    ok_runs += 1
                    why = stackexec.realizes(before, resids)
                    self.ob('error=0 => the ids realize the specification', why is None,
                            inputs=dict(block=b, policy=policy, sub_block=key, ids=resids), info=why)
                    self.ob('len(res)=len(resids)', res is not None and len(res) == len(resids), inputs=dict(block=b))
                    # the specification handed in is not altered except for the documented bound/witness fields
                    a, c = copy.deepcopy(before), copy.deepcopy(sfs)
                    for f in ("init_progr_len", "original_instrs", "original_code_with_ids"):
                        a.pop(f, None)
                        c.pop(f, None)
                    self.ob('specification-unchanged-by-the-search', a == c, inputs=dict(block=b, policy=policy, sub_block=key),
                            info="fields changed: %s" % [k for k in a if a.get(k) != c.get(k)])
        pipeline.reset_sticky_globals()
        cleanup_tmp()
        self.assumptions = ("bounded: %d specifications (%d with error = 0, %d reported as failures by the greedy itself)" % (n, ok_runs, errs),)


def cases(tier='quick'):
    return [GreedyRealizes()], {}
