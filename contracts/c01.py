"""C01 - optimized blocks are observationally equivalent to the original (composition theorem, explicitly partial).

Proof tree:  emitted(B') => B' = B  or  checker(B, B') = equal          (gates, P)
             checker(B, B') = equal => spec(B) ~ spec(B')               (C05, premise)
             spec(X) denotes X under every admissible schedule          (C02, C03, premises)
Own obligations: the keep-or-revert gates (contracts/gates.py), the opcode <-> operator table (finite domain, complete),
membership of every externally visible opcode in the split/terminal sets, minimal input stack depth, and a bounded
end-to-end run of the real pipeline judged by the reference executor.
"""
import itertools

from pyvc.harness import NativeCase
from specs import evmexec
from specs.evm import ARITY, COMMUTATIVE
from .common import go, utils, opcodes, constants, spec_of_block, plain_names, cleanup_tmp
from . import blocks as corpus, pipeline
import gasol_asm

# value-producing / consuming opcodes that may occur inside an optimizable segment
# the EVM / solc-assembly vocabulary (the opcode table of the tool also lists oyente leftovers that solc never emits)
VOCAB = sorted(set(ARITY) | {"KECCAK256", "MLOAD", "SLOAD", "MSIZE"} | set(evmexec.ENV0) | set(evmexec.ENV1))
NOT_IN_SEGMENT = set(constants.split_block) | set(constants.end_block) | set(constants.beginning_block)
EXTERNALLY_VISIBLE = {"LOG0", "LOG1", "LOG2", "LOG3", "LOG4", "CALL", "CALLCODE", "DELEGATECALL", "STATICCALL", "CREATE", "CREATE2",
                      "CALLDATACOPY", "CODECOPY", "EXTCODECOPY", "RETURNDATACOPY", "MCOPY", "RETURN", "REVERT", "STOP", "INVALID",
                      "SELFDESTRUCT", "JUMP", "JUMPI", "GAS"}


class OpcodeTable(NativeCase):
    """tier F (finite, complete): every opcode of the vocabulary, alone in a block, is specified as itself with the arity
    and operand order of the opcode table, and is flagged commutative iff it is"""
    prop = 'C01'
    tier = 'F'
    name = "opcode<->operator-table"
    functions = (go.funct_to_opcode, go.get_involved_vars, go.generate_userdefname, go.build_userdef_instructions)

    def run_native(self, tier):
        for op in VOCAB:
            if op in NOT_IN_SEGMENT or op.startswith(('PUSH', 'DUP', 'SWAP', 'LOG')) or op in ('POP', 'JUMPDEST', 'PC', 'MSIZE'):
                continue
            try:
                info = opcodes.opcodes.get(op) or opcodes.get_opcode(op)
            except ValueError:
                continue
            consumed, produced = info[1], info[2]
            if op in EXTERNALLY_VISIBLE:
                continue
            try:
                spec, _ = spec_of_block([op])
            except BaseException as e:
                self.ob('single-instruction-block-is-analysable', False, inputs=dict(op=op), info=repr(e))
                continue
            if len(spec) != 1:
                self.ob('single-instruction-block-is-analysable', False, inputs=dict(op=op), info="%d specifications" % len(spec))
                continue
            k = list(spec)[0]
            ui = [u for u in spec[k]["user_instrs"]]
            mine = [u for u in ui if u["disasm"] == op or (op == "SHA3" and u["disasm"] in ("SHA3", "KECCAK256"))]
            self.ob('specified-as-itself', len(mine) == 1 and len(ui) == 1, inputs=dict(op=op),
                    info="user_instrs: %s" % [(u["disasm"], u["inpt_sk"]) for u in ui])
            if len(mine) != 1:
                continue
            u = mine[0]
            want_in = ["s(%d)" % i for i in range(consumed)]
            self.ob('operands-in-stack-order', list(u["inpt_sk"]) == want_in, inputs=dict(op=op), info=str(u["inpt_sk"]))
            self.ob('commutative-flag-iff-commutative', bool(u["commutative"]) == (op in COMMUTATIVE), inputs=dict(op=op))
            if produced:
                self.ob('result-is-the-final-stack-top', spec[k]["tgt_ws"][:1] == list(u["outpt_sk"]), inputs=dict(op=op))
        cleanup_tmp()


class SplitMembership(NativeCase):
    """every opcode with an externally visible effect ends a segment: it belongs to split_block or end_block, so it is
    never inside an optimized segment (its operands are fixed by the segment before it)"""
    prop = 'C01'
    tier = 'F'
    name = "externally-visible-opcodes-are-split-instructions"
    functions = (constants.append_store_instructions_to_split,)

    def run_native(self, tier):
        for op in sorted(EXTERNALLY_VISIBLE):
            known = op in opcodes.opcodes or op in ("RETURNDATACOPY", "SELFDESTRUCT", "JUMP", "JUMPI", "STOP", "RETURN", "REVERT",
                                                   "INVALID", "GAS")
            try:
                opcodes.get_opcode(op)
            except ValueError:
                continue            # not in the tool's vocabulary at all: cannot occur in an accepted input
            member = op in constants.split_block or op in constants.end_block
            refused = False
            if not member:
                # acceptable only if the front end refuses to analyse a block containing it (then it is never optimized)
                info = opcodes.get_opcode(op)
                try:
                    spec_of_block(["PUSH 1"] * info[1] + [op])
                except BaseException:
                    refused = True
            self.ob('in-split-or-end-set(or never analysable)', member or refused, inputs=dict(op=op))
        before = set(constants.split_block)
        constants.append_store_instructions_to_split()
        mid = set(constants.split_block)
        constants.append_store_instructions_to_split()
        after = set(constants.split_block)
        constants.split_block = before
        self.ob('storage-mode-adds-exactly-the-stores', mid == before | set(constants.store_instructions))
        self.ob('storage-mode-extension-idempotent', after == mid)


def min_depth(names):
    cur = need = 0
    for n in names:
        info = opcodes.get_opcode(n)
        c, p = info[1], info[2]
        if c > cur:
            need += c - cur
            cur = c
        cur = cur - c + p
    return need


class StackDepth(NativeCase):
    """utils.compute_stack_size = minimal input depth (bounded-exhaustive over short sequences)"""
    prop = 'C01'
    name = "compute_stack_size(bounded)"
    functions = (utils.compute_stack_size,)

    def run_native(self, tier):
        ops = ["ADD", "POP", "DUP1", "DUP3", "SWAP1", "SWAP2", "PUSH1", "ISZERO", "MSTORE", "ADDMOD", "CALLER"]
        L = 4 if tier == 'quick' else 5
        n = 0
        for k in range(0, L + 1):
            for seq in itertools.product(ops, repeat=k):
                n += 1
                got = utils.compute_stack_size(list(seq))
                if got != min_depth(seq):
                    self.ob('=minimal-depth', False, inputs=dict(seq=list(seq)), info="got %d want %d" % (got, min_depth(seq)))
        self.ob('=minimal-depth', True, inputs=dict(sequences=n))
        self.assumptions = ("bounded: all %d sequences of length <= %d over %d opcodes" % (n, L, len(ops)),)


OPTSETS_Q = [(), ('-size',), ('-length',), ('-storage',), ('-partition',), ('-no-simplification',), ('-push0',)]
OPTSETS_T = OPTSETS_Q + [('-size', '-storage'), ('-length', '-partition'), ('-size', '-no-simplification'), ('-storage', '-push0'),
                         ('-partition', '-no-simplification'), ('-size', '-push0')]


# MSIZE observes every earlier memory access, also a read whose value is dropped (findings F35, F52)
MSIZE_BLOCKS = ["CALLER PUSH 20 MLOAD POP MSIZE", "CALLVALUE PUSH 20 PUSH 40 KECCAK256 POP MSIZE", "MSIZE CALLER PUSH 60 MLOAD POP MSIZE",
                "PUSH 80 MLOAD POP MSIZE", "PUSH 0 PUSH 0 MSTORE MSIZE PUSH 1 PUSH 1 ADD", "PUSH 40 MLOAD POP PUSH 1 PUSH 1 ADD MSIZE ADD",
                "DUP1 MLOAD POP GAS POP MSIZE", "MSIZE PUSH 40 MLOAD POP PUSH 2 PUSH 3 ADD"]


class EndToEnd(NativeCase):
    """bounded: for corpus blocks x option sets the emitted block behaves like the input on sampled machine states
    (stack words incl. 0, 1, 2^255, 2^256-1, aliasing offsets, pseudo-random initial memory/storage/environment), needs
    no deeper stack and changes the height by the same amount"""
    prop = 'C01'
    name = "end-to-end-equivalence(bounded)"
    functions = (gasol_asm.execute_gasol, gasol_asm.optimize_isolated_asm_block)
    weight = 100

    def run_native(self, tier):
        from .c10 import EDGE_BLOCKS
        optsets = OPTSETS_Q if tier == 'quick' else OPTSETS_T
        n_states = 12 if tier == 'quick' else 48
        from .c02 import hash_blocks
        blocks = list(corpus.BASE_BLOCKS) + list(EDGE_BLOCKS) + list(MSIZE_BLOCKS) + hash_blocks()
        # deterministic pseudo-random blocks (arithmetic / stack / memory / storage mixed); run under the first option sets only
        fuzz = corpus.random_blocks(60 if tier == 'quick' else 1200, seed=17) + corpus.random_blocks(40 if tier == 'quick' else 800, seed=18, profile='memory')
        shared = corpus.shared_rule_shape_blocks()
        shapes = corpus.rule_shape_blocks(1 if tier == 'quick' else 2) + (shared[::7] if tier == 'quick' else shared) + fuzz
        changed = 0
        shapes_set = set(shapes)
        for b in blocks + shapes:
            toks = corpus.tokens(b)
            text = pipeline.plain_text(toks)
            items_in = evmexec.parse_plain(toks)
            try:
                depth = utils.compute_stack_size(plain_names(toks))
            except Exception:
                continue
            if depth > 24:
                continue
            for opts in (optsets if b not in shapes_set else optsets[:2]):
                inp = dict(block=text, opts=list(opts))
                r = pipeline.run_cli(text, opts, timeout=30)
                if r['output'] is None:
                    continue            # totality is C10's subject
                items_out = pipeline.parse_output_block(r['output'].strip().split('\n')[0])
                if items_out != items_in:
                    changed += 1
                try:
                    w = evmexec.distinguishable(items_in, items_out, depth, n=n_states)
                except KeyError as e:
                    self.ob('output-uses-known-opcodes', False, inputs=inp, info=str(e))
                    continue
                self.ob('same-behaviour-on-sampled-states', w is None, inputs=dict(inp, output=r['output'].strip()),
                        info=None if w is None else "stack=%s seed=%d: %s" % ([hex(x) for x in w[0]], w[1], w[2]))
                d_out = utils.compute_stack_size([n for n, _ in items_out])
                self.ob('no-deeper-input-stack', d_out <= depth, inputs=dict(inp, output=r['output'].strip()))
        self.assumptions = ("bounded: %d blocks x %d option sets x %d sampled states each; %d emitted blocks differ from their input"
                            % (len(blocks), len(optsets), n_states * 2 + 10, changed),)
        cleanup_tmp()


def cases(tier='quick'):
    return [OpcodeTable(), SplitMembership(), StackDepth(), EndToEnd()], {}
