"""C15 - build_blocks_from_asm_representation under a loop contract: an item list of ANY length is partitioned into blocks.

  instr_list : list of opaque JSON records of arbitrary length, observed through rec["name"] / rec["value"]
  build_asm_bytecode(rec, _) is the callee contract  item = build(rec)  (its own field-by-field contract is ItemRoundTrip in c15.py);
      M = [build(rec) for rec in instr_list] is the image array the result is compared with
Loop invariant (while i < len(instr_list)), with the ghost index a = start of the block under construction:
      0 <= a <= i <= n,   concat(b.instructions for b in bytecodes) = M[0:a],   block.instructions = M[a:i],
      every block already in bytecodes is non-empty
Postcondition: concat(b.instructions for b in result) = M[0:n] (nothing lost, duplicated or reordered), no empty block.
"""
import ast
import itertools
import z3

from pyvc import sym
from pyvc.sym import Sym
from pyvc.harness import Case
from pyvc.symlist import SymList, Rope, LoopSpec
from . import common  # noqa
from .common import asm_block
import sfs_generator.parser_asm as parser_asm
from .c14p import Item, ItemCodec, ItemProxy

Rec = z3.DeclareSort('Rec')
name_fn = z3.Function('rec_name', Rec, z3.StringSort())
value_fn = z3.Function('rec_value', Rec, sym.Val)
QUAL = 'sfs_generator.parser_asm.build_blocks_from_asm_representation'
AsmBlock = asm_block.AsmBlock


class RecProxy(object):
    """one JSON record of the item list"""

    def __init__(self, e):
        self.e = e

    def __getitem__(self, k):
        if k == 'name':
            return Sym(name_fn(self.e))
        if k == 'value':
            return Sym(value_fn(self.e))
        raise KeyError(k)

    def get(self, k, default=None):
        return self[k] if k in ('name', 'value') else default


class RecCodec(object):
    sort = Rec

    def to_z3(self, x):
        return x.e

    def from_z3(self, e):
        return RecProxy(e)


def _as_rope(ins):
    if isinstance(ins, Rope):
        return ins
    if isinstance(ins, list):
        r = Rope(ItemCodec(), [])
        r.extend(ins)
        return r
    return None


def _known(nm):
    from .common import opcodes
    if nm in ('tag',):
        return True
    try:
        opcodes.get_opcode(nm)
        return True
    except BaseException:
        return False


class GhostBlocks(object):
    """the list of finished blocks: a summary rope for the blocks filed before the current iteration plus, by reference, the
    block objects filed since (so that a block changed after it was filed is seen as the list really holds it)"""

    def __init__(self, it):
        self.summary = []            # segments
        self.pending = []            # block objects
        self.it = it

    def append(self, block):
        self.pending.append(block)

    @property
    def flat(self):
        r = Rope(ItemCodec(), self.summary)
        for b in self.pending:
            r.extend(_as_rope(b.instructions))
        return r

    def nonempty(self):
        return z3.And(*([z3.BoolVal(True)] + [_as_rope(b.instructions).n > 0 for b in self.pending]))


class _PartitionLoop(LoopSpec):
    def __init__(self, idx, blocks, cur, frozen=()):
        self.idx_name, self.blocks_name, self.cur_name, self.frozen = idx, blocks, cur, frozen

    def enter(self, it, fr):
        if isinstance(fr.locals[self.blocks_name], list):
            assert not fr.locals[self.blocks_name]
            fr.locals[self.blocks_name] = GhostBlocks(it)
        blk = fr.locals[self.cur_name]
        blk._instructions = _as_rope(blk._instructions)
        self.others = [n for n, v in fr.locals.items() if isinstance(v, (int, Sym)) and not isinstance(v, bool) and n != self.idx_name
                       and n not in self.frozen]

    def havoc(self, it, fr, k):
        M = it.cfg['M']
        a = it.path.fresh_int('a')
        self.a = a.e
        if self.idx_name is not None:
            i = it.path.fresh_int('i')
            fr.locals[self.idx_name] = i
        else:
            i = k                                              # for i in range(len(..)): the position is the ghost index
        fr.locals[self.blocks_name].summary = [(M, z3.IntVal(0), a.e)]
        fr.locals[self.blocks_name].pending = []
        # the block under construction: any block object whose instruction list is M[a:i]
        blk = AsmBlock.__new__(AsmBlock)
        for f in ('contract_name', 'block_id', 'block_name', 'source_stack', 'is_init_block', '_jump_type', '_jump_to', '_falls_to', '_tag'):
            setattr(blk, f, it.path.fresh_val('blk_' + f))
        blk._instructions = Rope(ItemCodec(), [(M, a.e, i.e - a.e)])
        fr.locals[self.cur_name] = blk
        for n in self.others:                                    # block counter and the like: any integer
            fr.locals[n] = it.path.fresh_int(n)
        for n, v in list(fr.locals.items()):
            if isinstance(v, dict) and n not in ('instr_list',):
                fr.locals[n] = dict()                            # pushlib_values: outside the clause (see assumptions)

    def inv(self, it, fr, k):
        M = it.cfg['M']
        n = it.cfg['n']
        i = sym._as_int_expr(fr.locals[self.idx_name] if self.idx_name is not None else k)
        blocks = fr.locals[self.blocks_name]
        blk = fr.locals[self.cur_name]
        cur = _as_rope(getattr(blk, '_instructions', None))
        if not isinstance(blocks, GhostBlocks) or cur is None:
            return z3.BoolVal(False)
        a = blocks.flat.n                                       # the ghost index is the length of what is already filed
        return z3.And(i >= 0, i <= n, a >= 0, a <= i, blocks.flat.equals([(M, z3.IntVal(0), a)]), cur.equals([(M, a, i - a)]),
                      blocks.nonempty())


def _roles(node):
    idx = blocks = cur = None
    for n in ast.walk(node):
        if isinstance(n, ast.AugAssign) and isinstance(n.op, ast.Add) and isinstance(n.target, ast.Name) and idx is None \
                and isinstance(n.value, ast.Constant) and n.value.value == 1 and n in node.body:
            idx = n.target.id
    for n in ast.walk(node):
        if isinstance(n, ast.Call) and isinstance(n.func, ast.Attribute) and isinstance(n.func.value, ast.Name):
            if n.func.attr == 'append' and blocks is None:
                blocks = n.func.value.id
            if n.func.attr == 'add_instruction' and cur is None:
                cur = n.func.value.id
    return idx, blocks, cur


def classify(node):
    idx, blocks, cur = _roles(node)
    if isinstance(node, ast.While) and None not in (idx, blocks, cur):
        return _PartitionLoop(idx, blocks, cur), 'partition'
    if isinstance(node, ast.For) and None not in (blocks, cur) and isinstance(node.target, ast.Name):
        # for i in range(len(items)): the loop variable is the position; integers the loop does not assign keep their value
        assigned = set(t.id for n in ast.walk(node) for t in (getattr(n, 'targets', None) or [getattr(n, 'target', None)]) if isinstance(t, ast.Name))
        return _PartitionLoop(None, blocks, cur, frozen=_Unassigned(assigned)), 'partition'
    return None


class _Unassigned(object):
    def __init__(self, assigned):
        self.assigned = assigned

    def __contains__(self, name):
        return name not in self.assigned


class PartitionUnbounded(Case):
    prop = 'C15'
    tier = 'P'
    name = "build_blocks_from_asm_representation(unbounded)"
    functions = (parser_asm.build_blocks_from_asm_representation,)
    native_cover = True
    native_stubs = False          # native replays run the real callees
    stand_in = 'build_blocks_from_asm_representation(partition)'
    timeout_ms = 10000
    budget_s = 240
    assumptions = ("precondition: every record name is a name of the opcode table (otherwise AsmBlock.add_instruction raises)",
                   "items are opaque records observed through their name and value; build_asm_bytecode is used through its contract "
                   "item = build(record) (its fields are decided by ItemRoundTrip); the PUSHLIB numbering dictionary and the "
                   "source_stack bookkeeping of AsmBlock.add_instruction are outside this clause and abstracted",)
    loops = {(QUAL, '*'): classify}
    # boundary seeds, always run on the real function: every sequence of up to 4 items over the kinds the function distinguishes
    seeds = tuple(dict(len_items=k, is_init_code=False, item_names=list(t))
                  for k in range(5) for t in itertools.product(('ADD', 'tag', 'JUMP', 'STOP'), repeat=k))

    def make_stubs(self):
        def st_build(it, instruction, pushlib_values):
            e = instruction.e
            if z3.is_select(e) and e.arg(0).eq(it.cfg['instr_arr']):
                return ItemProxy(z3.Select(it.cfg['M'], e.arg(1)))
            return ItemProxy(it.cfg['build'](e))

        def st_stack_size(it, names):
            return it.path.fresh_int('source_stack')

        def st_to_optimize(it, self_):
            return []
        return {'sfs_generator.parser_asm.build_asm_bytecode': st_build,
                'sfs_generator.utils.compute_stack_size': st_stack_size,
                'sfs_generator.asm_block.AsmBlock.instructions_to_optimize_bytecode': st_to_optimize}

    def run(self, H):
        if not H.symbolic:
            return self.run_concrete(H)
        n = sym._as_int_expr(H.int('len_items', 0))
        instr = SymList(RecCodec(), n=n, name='items')
        # a counter-model is replayed on the real function from the names of its records
        sym.cur().extractors['item_names'] = lambda m: [m.eval(name_fn(instr.at(z3.IntVal(j))), model_completion=True).as_string()
                                                        for j in range(min(m.eval(n, model_completion=True).as_long(), 64))]
        M = z3.Array(sym.cur()._name('M'), z3.IntSort(), Item)
        H.it.cfg = dict(M=M, n=n, instr_arr=instr.arr, build=z3.Function('build', Rec, Item))
        init = H.bool('is_init_code')
        out = H.call(parser_asm.build_blocks_from_asm_representation, "c", "p", instr, init)
        H.check('raises-nothing', out.ok, info=repr(out.exc))
        if not out.ok:
            return
        res = out.value
        H.check('result-is-the-list-of-filed-blocks', isinstance(res, GhostBlocks))
        if not isinstance(res, GhostBlocks):
            return
        H.check('no-empty-block', Sym(res.nonempty()))
        H.check('concatenation-of-blocks=items-in-order', Sym(res.flat.equals([(M, z3.IntVal(0), n)])))

    def run_concrete(self, H):
        names = H._get('item_names', [])
        H.int('len_items', 0)
        if not isinstance(names, list):
            H.assume(False)
            return
        # precondition of the function: record names are names of the opcode table (add_instruction prices every item);
        # the symbolic run observes a name only through equality tests, so an unknown name of the model stands for any ordinary one
        names = [nm if _known(nm) else 'ADD' for nm in names]
        recs = [dict(name=nm, begin=j, end=j + 1, source=0, value=str(j)) for j, nm in enumerate(names)]
        out = H.call(parser_asm.build_blocks_from_asm_representation, "c", "p", [dict(r) for r in recs], H.bool('is_init_code'))
        H.check('raises-nothing', out.ok, info=repr(out.exc))
        if not out.ok:
            return
        H.check('result-is-the-list-of-filed-blocks', isinstance(out.value, list))
        H.check('no-empty-block', all(len(b.instructions) > 0 for b in out.value))
        flat = [(x.begin, x.end, x.disasm if x.disasm != 'PUSH0' else 'PUSH') for b in out.value for x in b.instructions]
        H.check('concatenation-of-blocks=items-in-order', flat == [(r['begin'], r['end'], r['name']) for r in recs])


def cases(tier='quick'):
    return [PartitionUnbounded()], {}
