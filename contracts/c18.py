"""C18 - formula constructors preserve truth value; emitted text matches the formula.

Real functions under contract (smt_encoding/constraints/*, solver_from_executable.translate_formula):
  add_and/or/not/implies/eq/lt/leq/distinct -> create_connector_and_simplify -> _simplify_*   (interpreted from the AST)
  Connector.__eq__, ExpressionReference.__eq__, Function.__eq__
  translate_formula
Argument lists are enumerated by *shape* (tier B: at most MAXARGS arguments drawn from the shapes the interface can
produce); literal values and the valuation of all atoms are symbolic, so each case is decided for every valuation.
"""
import itertools
import z3

from pyvc import sym
from pyvc.sym import Sym, sand, sor, snot, implies, sym_eq
from pyvc.harness import Case
from specs import formula as F
from . import common  # noqa: F401  (sys.path)
import smt_encoding.constraints.connector_factory as cf
from smt_encoding.constraints.connector import Connector
from smt_encoding.constraints.function import Function, ExpressionReference, Const, Sort
import smt_encoding.solver.solver_from_executable as sfe

BOOL_ATOMS = ['b0', 'b1', 'b2']
INT_ATOMS = ['i0', 'i1']


def valuation(H):
    val = {}
    for b in BOOL_ATOMS:
        val[b] = H.bool('val_' + b)
    for i in INT_ATOMS:
        val[i] = H.int('val_' + i)
    # an uninterpreted integer-valued term f(i0)
    val[('f', ('i0',))] = H.int('val_f_i0')
    val[('f', ('i1',))] = H.int('val_f_i1')
    val[('f', (-2,))] = H.int('val_f_m2')
    return val


def B(n):
    return Const(n, Sort.boolean)


def I(n):
    return Const(n, Sort.integer)


def mk(name, *args):
    comm = {'and': True, 'or': True, 'not': True, '=': True, 'distinct': True, '=>': False, '<': False, '<=': False}[name]
    return Connector(name, comm, *args)


# shapes of *boolean* arguments the interface can hand to and/or/not/=> (lit = symbolic literal)
def bool_shapes(H, tag):
    return [
        ('lit', lambda: H.bool('lit_' + tag)),
        ('b0', lambda: B('b0')),
        ('b1', lambda: B('b1')),
        ('not(b2)', lambda: mk('not', B('b2'))),
        ('and(b1,b2)', lambda: mk('and', B('b1'), B('b2'))),
        ('or(b0,b2)', lambda: mk('or', B('b0'), B('b2'))),
        ('lt(i0,i1)', lambda: mk('<', I('i0'), I('i1'))),
        ('and(b0,or(b1,b2))', lambda: mk('and', B('b0'), mk('or', B('b1'), B('b2')))),
    ]


def term_shapes(H, tag):
    f = Function('f', Sort.integer, Sort.integer)
    return [
        ('blit', lambda: H.bool('blit_' + tag)),
        ('ilit', lambda: H.int('ilit_' + tag)),
        ('b0', lambda: B('b0')),
        ('b1', lambda: B('b1')),
        ('i0', lambda: I('i0')),
        ('i1', lambda: I('i1')),
        ('f(i0)', lambda: f(I('i0'))),
        ('not(b0)', lambda: mk('not', B('b0'))),
        ('and(b0,b1)', lambda: mk('and', B('b0'), B('b1'))),
        ('and(b1,b0)', lambda: mk('and', B('b1'), B('b0'))),
    ]


def well_sorted(name, args):
    """precondition of the constructors: SMT-LIB well-sortedness of the unsimplified formula"""
    def srt(a):
        if isinstance(a, bool) or (isinstance(a, Sym) and a.kind == 'bool'):
            return 'B'
        if isinstance(a, int) or (isinstance(a, Sym) and a.kind == 'int'):
            return 'I'
        if isinstance(a, ExpressionReference):
            return 'B' if a.type == Sort.boolean else 'I'
        return 'B'
    ss = [srt(a) for a in args]
    if name in ('and', 'or', 'not', '=>'):
        return all(s == 'B' for s in ss)
    if name in ('<', '<='):
        return all(s == 'I' for s in ss)
    return True


class Constructor(Case):
    prop = 'C18'
    tier = 'B'
    max_paths = 20000
    timeout_ms = 10000

    def __init__(self, cname, fn, nargs, shapes_fn, weight=1):
        self.cname, self.fn, self.nargs, self.shapes_fn = cname, fn, nargs, shapes_fn
        self.name = "%s[args=%d]" % (fn.__name__, nargs)
        self.weight = weight
        self.functions = (fn, cf.Connectors.create_connector_and_simplify, cf.Connectors.create_connector,
                          cf.Connectors.simplify_function) + tuple(
            f for f in (cf._simplify_and, cf._simplify_or, cf._simplify_not, cf._simplify_implies, cf._simplify_equal)
            if f.__name__.endswith({'and': 'and', 'or': 'or', 'not': 'not', '=>': 'implies', '=': 'equal'}.get(cname, '#')))
        self.assumptions = ("bounded: argument lists of length %d over the listed shapes (literal values and all atom valuations symbolic)" % nargs,
                            "arguments are well sorted (Bool arguments for and/or/not/=>, Int arguments for < and <=); and/or/distinct get at least one argument")

    def run(self, H):
        val = valuation(H)
        args = []
        names = []
        for k in range(self.nargs):
            shapes = self.shapes_fn(H, str(k))
            i = H.choice('shape%d' % k, list(range(len(shapes))))
            names.append(shapes[i][0])
            args.append(shapes[i][1]())
        if not well_sorted(self.cname, args):
            H.assume(False)
            return
        out = H.call(self.fn, *args)
        H.check('raises-nothing', out.ok, info="%s%r -> %r" % (self.fn.__name__, tuple(names), out.exc))
        if not out.ok:
            return
        try:
            expected = F.ev(mk(self.cname, *args), val)
            got = F.ev(out.value, val)
        except F.IllSorted:
            H.check('result-well-sorted', False, info=repr(names))
            return
        H.check('same-truth-value', F.same(got, expected), info="%s%r" % (self.fn.__name__, tuple(names)))


class StructuralEq(Case):
    """phi1 == phi2  =>  same truth value under every valuation; phi == phi"""
    prop = 'C18'
    tier = 'B'
    name = "Connector/ExpressionReference.__eq__"
    functions = (Connector.__eq__, ExpressionReference.__eq__, Function.__eq__)
    max_paths = 20000
    assumptions = ("bounded: pairs of formulas over the listed shapes, commutative argument lists of length <= 3",)

    def forms(self):
        f = Function('f', Sort.integer, Sort.integer)
        g = Function('f', Sort.integer, Sort.boolean)
        b0, b1, b2, i0, i1 = B('b0'), B('b1'), B('b2'), I('i0'), I('i1')
        return [b0, b1, i0, i1, f(i0), f(i1), mk('not', b0), mk('not', b1), mk('and', b0, b1), mk('and', b1, b0),
                mk('or', b0, b1), mk('or', b1, b0), mk('and', b0, b1, b2), mk('and', b2, b0, b1), mk('and', b0, b0, b1),
                mk('and', b0, b1, b1), mk('=>', b0, b1), mk('=>', b1, b0), mk('<', i0, i1), mk('<', i1, i0),
                mk('<=', i0, i1), mk('=', i0, i1), mk('=', i1, i0), mk('=', b0, b1), mk('distinct', i0, i1),
                mk('distinct', i1, i0), mk('and', mk('or', b0, b1), b2), mk('and', b2, mk('or', b1, b0)),
                mk('=>', mk('and', b0, b1), b2), mk('=>', mk('and', b1, b0), b2), Const('b0', Sort.integer)]

    def run(self, H):
        val = valuation(H)
        fs = self.forms()
        i = H.choice('lhs', list(range(len(fs))))
        j = H.choice('rhs', list(range(len(fs))))
        a, b = fs[i], fs[j]
        out = H.call(type(a).__eq__, a, b)
        H.check('raises-nothing', out.ok, info=repr(out.exc))
        if not out.ok:
            return
        r = out.value
        if i == j:
            H.check('reflexive', bool(r) if not isinstance(r, Sym) else sym.truth(r))
        if isinstance(r, Sym) or r:
            ea, eb = F.ev(a, val), F.ev(b, val)
            H.check('equal=>same-truth-value', implies(r, F.same(ea, eb)), info="%s == %s" % (a, b))


def generated_formulas(conn):
    """all applications of one connector to argument tuples (with repetition) drawn from a pool of well-sorted terms"""
    f = Function('f', Sort.integer, Sort.integer)
    b0, b1, i0, i1 = B('b0'), B('b1'), I('i0'), I('i1')
    bools = [True, False, b0, b1, mk('not', b0), mk('and', b0, b1), mk('<', i0, i1), mk('distinct', i0, i1, i0)]
    ints = [0, 7, -1, i0, i1, f(i0), f(-2)]
    out = []
    if conn in ('and', 'or'):
        for n in (1, 2, 3):
            out += [mk(conn, *t) for t in itertools.product(bools, repeat=n)]
    elif conn == 'not':
        out += [mk('not', t) for t in bools]
    elif conn == '=>':
        out += [mk('=>', a, b) for a in bools for b in bools]
    elif conn in ('<', '<='):
        out += [mk(conn, a, b) for a in ints for b in ints]
    elif conn == '=':
        out += [mk('=', a, b) for a in ints for b in ints] + [mk('=', a, b) for a in bools for b in bools]
    elif conn == 'distinct':
        # one argument: only through the interface (a raw one-argument "distinct" is not a formula the interface produces)
        out += [cf.add_distinct(t) for t in ints]
        for n in (2, 3):
            out += [mk('distinct', *t) for t in itertools.product(ints, repeat=n)]
        out += [mk('=>', mk('distinct', i0, i1, i0), b0), mk('and', mk('distinct', i0, i0), mk('distinct', i1, i0, i1))]
    return out


def concrete_formulas():
    f = Function('f', Sort.integer, Sort.integer)
    b0, b1, b2, i0, i1 = B('b0'), B('b1'), B('b2'), I('i0'), I('i1')
    base = [True, False, 0, 7, -3, b0, i0, f(i0), mk('not', b0), mk('and', b0, b1), mk('or', b0, b1, b2),
            mk('=>', b0, b1), mk('=', i0, 5), mk('=', f(i0), i1), mk('<', i0, i1), mk('<=', 3, i1),
            mk('distinct', i0, i1, 4), mk('and', mk('or', b0, mk('not', b1)), mk('=>', b2, mk('=', i0, i1))),
            mk('not', mk('and', True, b0)), mk('or', False, mk('<', f(i0), 0))]
    return base


class TranslateFormula(Case):
    """translate_formula(f) is the SMT-LIB text of f: token-wise equal to the independent printer, and the text read
    back by the independent reader denotes ev(f) under every valuation"""
    prop = 'C18'
    tier = 'B'
    name = "translate_formula"
    functions = (sfe.translate_formula,)
    assumptions = ("bounded: the listed formula trees (depth <= 3)",)

    def __init__(self, conn=None):
        self.conn = conn
        if conn is not None:
            self.name = "translate_formula[%s]" % conn
            self.max_paths = 20000

    def run(self, H):
        val = valuation(H)
        fs = concrete_formulas() if self.conn is None else generated_formulas(self.conn)
        i = H.choice('formula', list(range(len(fs))))
        f = fs[i]
        out = H.call(sfe.translate_formula, f)
        H.check('raises-nothing', out.ok, info=repr(out.exc))
        if not out.ok:
            return
        text = out.value
        H.check('returns-concrete-text', isinstance(text, str))
        if not isinstance(text, str):
            return
        H.check('text=independent-printer(tokens)', F.tokenize(text) == F.tokenize(F.smtlib(f)), info=text)
        sorts = dict([(b, 'B') for b in BOOL_ATOMS] + [(x, 'I') for x in INT_ATOMS] + [('f', 'I')])
        try:
            back = F.ev_tree(F.parse(text), val, sorts)
            ok = F.same(back, F.ev(f, val))
        except Exception as e:
            ok = False
        H.check('parse-back-denotes-the-formula', ok, info=text)


def cases(tier='quick'):
    cs = []
    maxargs = 3 if tier == 'quick' else 4
    for n in range(1, maxargs + 1):
        cs.append(Constructor('and', cf.add_and, n, bool_shapes, weight=8 ** n))
        cs.append(Constructor('or', cf.add_or, n, bool_shapes, weight=8 ** n))
    cs.append(Constructor('not', cf.add_not, 1, bool_shapes))
    cs.append(Constructor('=>', cf.add_implies, 2, bool_shapes))
    cs.append(Constructor('=', cf.add_eq, 2, term_shapes, weight=100))
    cs.append(Constructor('<', cf.add_lt, 2, term_shapes))
    cs.append(Constructor('<=', cf.add_leq, 2, term_shapes))
    for n in (1, 2, 3):
        cs.append(Constructor('distinct', cf.add_distinct, n, term_shapes, weight=10 ** n))
    cs.append(StructuralEq())
    cs.append(TranslateFormula())
    cs += [TranslateFormula(c) for c in ('and', 'or', 'not', '=>', '=', '<', '<=', 'distinct')]
    return cs, dict(max_args=maxargs)
