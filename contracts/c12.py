"""C12 - a block's result does not depend on what was processed before it.

Tier E (frame obligations discharged by the effect analysis of frames/effects.py on the real ASTs):
  for every per-block entry point E and every module global g that MAY be read before it is definitely written on a path
  from E and that is written by anything that can run between two blocks, g belongs to a reviewed class whose side condition
  is re-checked mechanically on every run.  A global outside the table, or one whose side condition no longer holds, fails.
Tier B: native history replay -- corpus blocks processed after histories of other blocks vs. in a pristine process.
"""
import ast
import json
import os
import subprocess
import sys

from pyvc.harness import NativeCase
from frames.effects import Analysis
from .common import REPO

MODS = {
    'sfs_generator.gasol_optimization': 'sfs_generator/gasol_optimization.py', 'sfs_generator.ir_block': 'sfs_generator/ir_block.py',
    'global_params.constants': 'global_params/constants.py', 'gasol_asm': 'gasol_asm.py', 'sfs_generator.utils': 'sfs_generator/utils.py',
    'sfs_generator.opcodes': 'sfs_generator/opcodes.py', 'sfs_generator.rbr_rule': 'sfs_generator/rbr_rule.py',
    'global_params.paths': 'global_params/paths.py', 'smt_encoding.json_with_dependencies': 'smt_encoding/json_with_dependencies.py',
    'greedy.block_generation': 'greedy/block_generation.py', 'sfs_generator.asm_block': 'sfs_generator/asm_block.py',
    'sfs_generator.asm_bytecode': 'sfs_generator/asm_bytecode.py', 'sfs_generator.parser_asm': 'sfs_generator/parser_asm.py',
    'sfs_generator.asm_contract': 'sfs_generator/asm_contract.py', 'sfs_generator.asm_json': 'sfs_generator/asm_json.py',
    'verification.sfs_verify': 'verification/sfs_verify.py', 'verification.utils_verify': 'verification/utils_verify.py',
    'solution_generation.optimize_from_sub_blocks': 'solution_generation/optimize_from_sub_blocks.py',
    'solution_generation.ids2asm': 'solution_generation/ids2asm.py',
    'smt_encoding.instructions.instruction_dependencies': 'smt_encoding/instructions/instruction_dependencies.py',
    'smt_encoding.instructions.instruction_bounds_with_dependencies': 'smt_encoding/instructions/instruction_bounds_with_dependencies.py',
    'smt_encoding.count_sms_greedy': 'smt_encoding/count_sms_greedy.py',
    'smt_encoding.constraints.connector_factory': 'smt_encoding/constraints/connector_factory.py',
    'statistics.statistics_from_asm_block': 'statistics/statistics_from_asm_block.py',
}
ENTRIES = [('sfs_generator.ir_block', 'evm2rbr_compiler'), ('sfs_generator.ir_block', 'get_subblocks'),
           ('gasol_asm', 'optimize_asm_block_asm_format'), ('gasol_asm', 'compare_asm_block_asm_format'),
           ('gasol_asm', 'optimize_asm_block_from_log'), ('greedy.block_generation', 'greedy_from_json'),
           ('gasol_asm', 'generate_statistics_info')]
# everything that can run between two blocks of one process
SCOPE = [('gasol_asm', 'optimize_asm_contract'), ('gasol_asm', 'optimize_isolated_asm_block'), ('gasol_asm', 'optimize_asm_from_log')]

G = 'sfs_generator.gasol_optimization'
REVIEWED = {
    (G, 'split_sto'): ('option-mirror', "set to True only under `if storage:` (a parameter); options are fixed for a process"),
    ('global_params.constants', 'split_block'): ('option-mirror', "replaced by split_block.union(store_instructions) only under `if storage:`; idempotent"),
    (G, 'compute_gast'): ('idempotent-constant', "every write assigns True, its initial value"),
    (G, 'gas_t'): ('accumulator', "only self-updates; never read otherwise"),
    (G, 'saved_push'): ('accumulator', "statistics counter, only self-updates"),
    (G, 'gas_saved_op'): ('accumulator', "statistics counter, only self-updates"),
    (G, 'gas_store_op'): ('accumulator', "statistics counter, only self-updates"),
    (G, 'gas_memory_op'): ('accumulator', "statistics counter, only self-updates"),
    (G, 'push_rebuilt'): ('write-only', "dictionary that is filled but never read"),
    ('gasol_asm', 'previous_gas'): ('accumulator', "running total printed at the end"),
    ('gasol_asm', 'new_gas'): ('accumulator', "running total"), ('gasol_asm', 'previous_size'): ('accumulator', "running total"),
    ('gasol_asm', 'new_size'): ('accumulator', "running total"), ('gasol_asm', 'prev_n_instrs'): ('accumulator', "running total"),
    ('gasol_asm', 'new_n_instrs'): ('accumulator', "running total"),
}


def params_of(fn):
    a = fn.args
    return set(x.arg for x in a.posonlyargs + a.args + a.kwonlyargs)


def side_condition(A, g, cls, scope_reach):
    """returns None if the side condition of the class holds, else a reason"""
    writes = A.written_anywhere(g, scope_reach)
    mod = A.mods[g[0]]
    if cls == 'accumulator':
        if any(kind == 'mutate' for (k, ln, kind, rhs) in writes):
            return "mutated in place"
        # every read of g inside the scope is the implicit read of an augmented self-assignment
        aug_lines = set((k, ln) for (k, ln, kind, rhs) in writes if kind == 'aug')
        for (k, ln) in A.read_sites.get(g, ()):
            if k in scope_reach and (k, ln) not in aug_lines:
                # reads by the final report (execute_gasol) are outside the scope
                return "read at %s:%d is not a self-update" % (k[1], ln)
        for (k, ln, kind, rhs) in writes:
            if kind == 'assign':
                # a (re)initialisation is fine as long as it does not depend on the global
                pass
        return None
    if cls == 'write-only':
        # mutators that also hand back information about the old state are reads
        for (k, ln, kind, rhs) in writes:
            if kind == 'mutate' and rhs in ('pop', 'next', 'popitem', 'setdefault', 'send', '__next__', 'popleft', 'seek'):
                return "%s at %s:%d returns part of the old state" % (rhs, k[1], ln)
        mut_lines = set((k, ln) for (k, ln, kind, rhs) in writes)
        for (k, ln) in A.read_sites.get(g, ()):
            if k in scope_reach and (k, ln) not in mut_lines:
                return "read at %s:%d" % (k[1], ln)
        return None
    if cls == 'idempotent-constant':
        init = None
        for st in mod.tree.body:
            if isinstance(st, ast.Assign) and any(isinstance(t, ast.Name) and t.id == g[1] for t in st.targets):
                init = ast.unparse(st.value)
        for (k, ln, kind, rhs) in writes:
            if kind != 'assign' or rhs != init:
                return "write at %s:%d assigns %r, initial value is %r" % (k[1], ln, rhs, init)
        return None
    if cls == 'option-mirror':
        for (k, ln, kind, rhs) in writes:
            fn = A.funcs[k]
            names = set(n.id for n in ast.walk(ast.parse(rhs or 'None')) if isinstance(n, ast.Name))
            allowed = params_of(fn) | {'True', 'False', 'None', g[1]} | set(x for x in A.mods[k[0]].globals if not A.written_anywhere((k[0], x)))
            if not names <= allowed:
                return "write at %s:%d depends on %s" % (k[1], ln, sorted(names - allowed))
        return None
    return "unknown class"


def mutable_default_mutations(A, reach):
    bad = []
    for k in reach:
        fn = A.funcs[k]
        a = fn.args
        pos = a.posonlyargs + a.args
        defaults = list(zip(pos[len(pos) - len(a.defaults):], a.defaults)) + [(x, d) for x, d in zip(a.kwonlyargs, a.kw_defaults) if d is not None]
        for arg, d in defaults:
            if isinstance(d, (ast.List, ast.Dict, ast.Set)) or (isinstance(d, ast.Call) and isinstance(d.func, ast.Name) and d.func.id in ('list', 'dict', 'set')):
                nm = arg.arg
                for n in ast.walk(fn):
                    if isinstance(n, ast.Call) and isinstance(n.func, ast.Attribute) and isinstance(n.func.value, ast.Name) \
                            and n.func.value.id == nm and n.func.attr in ('append', 'extend', 'insert', 'pop', 'remove', 'clear', 'update', 'add', 'setdefault'):
                        bad.append((k, nm, n.lineno, n.func.attr))
                    if isinstance(n, (ast.Assign, ast.AugAssign)):
                        ts = n.targets if isinstance(n, ast.Assign) else [n.target]
                        for t in ts:
                            if isinstance(t, ast.Subscript) and isinstance(t.value, ast.Name) and t.value.id == nm:
                                bad.append((k, nm, n.lineno, 'subscript-store'))
                            if isinstance(n, ast.AugAssign) and isinstance(t, ast.Name) and t.id == nm:
                                bad.append((k, nm, n.lineno, 'augmented-assignment'))
    return bad


class FrameAnalysis(NativeCase):
    prop = 'C12'
    tier = 'E'
    name = "frame(result depends on arguments and options only)"

    def run_native(self, tier):
        A = Analysis(REPO, MODS)
        scope_reach = set()
        for s in SCOPE:
            scope_reach |= A.reachable(s)
        self.functions = ()
        self.meta = dict(functions=len(A.funcs), globals=len(A.all_globals), fixpoint_rounds=A.rounds)
        for e in ENTRIES:
            if e not in A.funcs:
                self.ob('entry-point-exists', False, inputs=dict(entry=list(e)))
                continue
            rbw = A.RBW[e]
            reach = A.reachable(e)
            nonconst = sorted(g for g in rbw if A.written_anywhere(g, scope_reach))
            self.ob('analysis-covers-the-entry', len(reach) > 1 or e[1] == 'generate_statistics_info', inputs=dict(entry=list(e), reachable=len(reach)))
            for g in nonconst:
                inp = dict(entry="%s.%s" % e, global_="%s.%s" % g,
                           write_sites=[(s[0][1], s[1], s[2], s[3][:60]) for s in A.written_anywhere(g, scope_reach)][:6])
                # the class is decided by its side condition (not by the name of the global, so renaming is harmless)
                reasons = {}
                cls = None
                for c in ('accumulator', 'write-only', 'idempotent-constant', 'option-mirror'):
                    why = side_condition(A, g, c, scope_reach)
                    if why is None:
                        cls = c
                        break
                    reasons[c] = why
                inp['class'] = cls
                inp['reviewed_as'] = (REVIEWED.get(g) or ('-', ''))[0]
                self.ob('every global read before written is an accumulator, write-only, an idempotent constant or an option mirror',
                        cls is not None, inputs=inp,
                        info="module global %s.%s may be read before it is written on a path from %s and is written between blocks; "
                             "no class applies: %s" % (g[0], g[1], e[1], reasons))
            self.ob('constants-and-reinitialised-globals', True, inputs=dict(entry="%s.%s" % e, read_before_write=len(rbw),
                                                                              never_written_between_blocks=len(rbw) - len(nonconst)))
        bad = mutable_default_mutations(A, scope_reach)
        self.ob('no mutable default argument is mutated', not bad, inputs=dict(sites=[(k[1], nm, ln, how) for k, nm, ln, how in bad][:8]),
                info="mutated default arguments: %s" % [(k[1], nm, ln) for k, nm, ln, how in bad][:5])
        # reviewed entries that are no longer needed are reported (not an error)
        self.assumptions = ("one option set per process (the quantifier of the property fixes the options)",
                            "effect analysis limits: dynamic attribute access, exec/eval and aliasing of a global container through a local name are not tracked",
                            "state kept in files under paths.gasol_path is written, never read back by the pipeline")


_CHILD = r'''
import sys, json, os, io, contextlib
sys.path.insert(0, %(verif)r); sys.path.insert(0, %(repo)r)
sys.dont_write_bytecode = True
import warnings; warnings.filterwarnings('ignore')
from contracts import pipeline, blocks as corpus
from contracts.common import spec_of_block, go, cleanup_tmp
import gasol_asm

def norm(x):
    return json.loads(json.dumps(x, sort_keys=True, default=str))

def one(b, opts):
    toks = corpus.tokens(b)
    res = {}
    try:
        spec, sub = spec_of_block(toks, **opts)
        res['spec'] = norm(dict(spec)); res['sub'] = norm(sub)
    except BaseException as e:
        res['spec'] = 'EXC ' + type(e).__name__
    r = pipeline.run_cli(pipeline.plain_text(toks), ['-storage'] if opts.get('storage') else [])
    res['out'] = r['output']; res['exc'] = r['exc']; res['csv'] = r.get('csv')
    return res

job = json.loads(sys.stdin.read())
out = []
for (history, b, opts) in job:
    if history == 'inproc':
        pipeline.reset_sticky_globals()
        out.append(one(b, opts))
    elif history is None:
        # pristine: fork so that nothing has run before in this address space
        rd, wr = os.pipe()
        pid = os.fork()
        if pid == 0:
            os.close(rd)
            with os.fdopen(wr, 'w') as f:
                f.write(json.dumps(one(b, opts)))
            os._exit(0)
        os.close(wr)
        with os.fdopen(rd) as f:
            data = f.read()
        os.waitpid(pid, 0)
        out.append(json.loads(data))
    else:
        rd, wr = os.pipe()
        pid = os.fork()
        if pid == 0:
            os.close(rd)
            for h in history:
                try:
                    one(h, opts)
                except BaseException:
                    pass
            with os.fdopen(wr, 'w') as f:
                f.write(json.dumps(one(b, opts)))
            os._exit(0)
        os.close(wr)
        with os.fdopen(rd) as f:
            data = f.read()
        os.waitpid(pid, 0)
        out.append(json.loads(data))
cleanup_tmp()
print("@@RESULT@@" + json.dumps(out))
'''


def run_child(job, env_extra=None):
    verif = os.path.dirname(os.path.dirname(os.path.abspath(__file__)))
    code = _CHILD % dict(verif=verif, repo=REPO)
    env = dict(os.environ)
    env['PYTHONDONTWRITEBYTECODE'] = '1'
    if env_extra:
        env.update(env_extra)
    p = subprocess.run([sys.executable, '-c', code], input=json.dumps(job), capture_output=True, text=True, env=env, timeout=900)
    for line in p.stdout.splitlines():
        if line.startswith("@@RESULT@@"):
            return json.loads(line[len("@@RESULT@@"):])
    raise RuntimeError("child failed: " + p.stderr[-800:])


class HistoryReplay(NativeCase):
    prop = 'C12'
    name = "history-replay(bounded)"
    weight = 90

    def run_native(self, tier):
        import gasol_asm
        from .common import irb
        self.functions = (irb.evm2rbr_compiler, gasol_asm.optimize_asm_block_asm_format)
        from . import blocks as corpus
        from .c02 import MEM_BLOCKS
        from .c10 import EDGE_BLOCKS
        pool = list(corpus.BASE_BLOCKS) + MEM_BLOCKS[:20] + EDGE_BLOCKS[:20]
        targets = pool[::7] if tier == 'quick' else pool[::2]
        job = []
        chunks = []
        for opts in (dict(), dict(storage=True)):
            for i, b in enumerate(targets):
                others = [x for x in pool if x != b]
                hists = [others[:10], list(reversed(others))[:10]] if tier == 'quick' else [others[:40], list(reversed(others))[:40], others[::3]]
                part = [(None, b, opts)] + [(h, b, opts) for h in hists]
                job += part
                chunks.append(part)
        # one child process per group of targets, several at a time (each child forks per history, so nothing is shared)
        from concurrent.futures import ThreadPoolExecutor
        groups = [sum(chunks[k::12], []) for k in range(12)] if tier != 'quick' else [job]
        groups = [g for g in groups if g]
        with ThreadPoolExecutor(max_workers=min(12, len(groups))) as tp:
            outs = list(tp.map(run_child, groups))
        by_key = {}
        for g, o in zip(groups, outs):
            for jb, r in zip(g, o):
                by_key[json.dumps(jb, sort_keys=True)] = r
        res = [by_key[json.dumps(list(jb), sort_keys=True)] if json.dumps(list(jb), sort_keys=True) in by_key else by_key[json.dumps(jb, sort_keys=True)] for jb in job]
        i = 0
        n = 0
        while i < len(job):
            fresh = res[i]
            b, opts = job[i][1], job[i][2]
            i += 1
            while i < len(job) and job[i][0] is not None and job[i][1] == b:
                got = res[i]
                n += 1
                inp = dict(block=b, opts=opts, history_length=len(job[i][0]), history_head=job[i][0][:3])
                self.ob('specification(B|H)=specification(B|fresh process)', got.get('spec') == fresh.get('spec') and got.get('sub') == fresh.get('sub'),
                        inputs=inp, info="specification differs after the history")
                self.ob('optimized-code(B|H)=optimized-code(B|fresh process)', got.get('out') == fresh.get('out') and got.get('exc') == fresh.get('exc'),
                        inputs=inp, info="%r vs %r" % (got.get('out'), fresh.get('out')))
                i += 1
        self.assumptions = ("bounded: %d (block, history) pairs, histories of up to %d other blocks, 2 option sets" % (n, len(pool) - 1),)


class ParserPositionIndependence(NativeCase):
    """bounded, function level: what build_blocks_from_asm_representation makes of a block's items does not depend on the items in
    front of it.  For every item sequence of length <= N over {PUSHLIB a, PUSHLIB b, PUSHLIB c, tag, JUMP, ADD, PUSH 0} each returned
    block is compared with the block obtained from its own items alone: same instruction names, operands and library values (the number
    the optimizer sees for a PUSHLIB is an index into a per-block table - seed C12-6 lets the table of a block that starts at a tag
    continue the one of the block before)"""
    prop = 'C12'
    name = "parser-blocks-independent-of-preceding-items(bounded)"

    def run_native(self, tier):
        import itertools
        import sfs_generator.parser_asm as parser_asm
        self.functions = (parser_asm.build_blocks_from_asm_representation, parser_asm.build_asm_bytecode)
        vocab = [dict(name="PUSHLIB", value="liba"), dict(name="PUSHLIB", value="libb"), dict(name="PUSHLIB", value="libc"),
                 dict(name="tag", value="1"), dict(name="JUMP"), dict(name="ADD"), dict(name="PUSH", value="0")]
        N = 4 if tier == 'quick' else 5
        view = lambda b: [(i.disasm, i.value, getattr(i, 'real_value', None)) for i in b.instructions]
        n = 0
        for L in range(1, N + 1):
            for seq in itertools.product(range(len(vocab)), repeat=L):
                items = [dict(vocab[k], begin=0, end=1, source=0) for k in seq]
                blocks = parser_asm.build_blocks_from_asm_representation("c", "c", [dict(d) for d in items], False)
                pos = 0
                ok, why = True, None
                for b in blocks:
                    own = items[pos:pos + len(b.instructions)]
                    pos += len(b.instructions)
                    alone = parser_asm.build_blocks_from_asm_representation("c", "c", [dict(d) for d in own], False)
                    if len(alone) != 1 or view(alone[0]) != view(b):
                        ok, why = False, dict(in_context=view(b), alone=[view(a) for a in alone])
                        break
                n += 1
                self.ob('each block = the block its own items give alone', ok and pos == len(items), inputs=dict(items=[(d['name'], d.get('value')) for d in items]), info=why)
        self.assumptions = ("bounded: %d item sequences (length <= %d over 7 items)" % (n, N),)


def cases(tier='quick'):
    return [FrameAnalysis(), HistoryReplay(), ParserPositionIndependence()], {}
