"""C08 - optimization never makes a block costlier in the chosen criterion.

Functions under contract:
  utils.get_ins_size, utils.get_push_number_hex, utils.get_num_bytes_int      (P, vs independent byte table)
  AsmBytecode.bytes_required / gas_spent / gas_spent_accesses                 (F over the item vocabulary x P over the operand)
  opcodes.get_ins_cost                                                        (F)
  AsmBlock.bytes_required / length                                            (P, list homomorphisms)
  gasol_asm.improves_criterion, block_has_been_optimized, compare_best_block,
  choose_best_solution, update_gas_count/size_count/length_count              (P)
"""
import types
import z3

from pyvc import sym, interp
from pyvc.sym import Sym, WORD, ite, sand, sor, snot, implies
from pyvc.harness import Case
from specs import cost
from .common import go, utils, opcodes, asm_bytecode, asm_block, constants
import gasol_asm

AsmBytecode = asm_bytecode.AsmBytecode
AsmBlock = asm_block.AsmBlock

BASIC = sorted(set(opcodes.opcodes.keys()) | {"RETURNDATASIZE", "RETURNDATACOPY", "SELFDESTRUCT", "JUMPDEST", "PC",
                                             "MSIZE", "GAS", "JUMP", "JUMPI", "STOP", "RETURN", "REVERT", "INVALID"})
BASIC = [o for o in BASIC if not o.startswith("PUSH")] + ["DUP%d" % i for i in range(1, 17)] + ["SWAP%d" % i for i in range(1, 17)]
PSEUDO = ["PUSH [tag]", "PUSH data", "PUSH [$]", "PUSH #[$]", "PUSHSIZE", "PUSHLIB", "PUSHDEPLOYADDRESS", "PUSHIMMUTABLE",
          "ASSIGNIMMUTABLE", "tag", "PUSH0"]


def mk_item(H, name, value):
    out = H.call(AsmBytecode, -1, -1, -1, name, value)
    assert out.ok, out.exc
    return out.value


class ItemCost(Case):
    """bytes_required / gas_spent of one assembly item against the independent tables, for both PUSH0 settings"""
    prop = 'C08'
    tier = 'P'
    functions = (AsmBytecode.bytes_required.fget, AsmBytecode.gas_spent.fget, asm_bytecode.is_push0,
                 utils.get_ins_size, utils.get_num_bytes_int, utils.number_encoding_size, opcodes.get_ins_cost)
    max_steps = 1000

    def __init__(self, name):
        self.item = name
        self.name = "item_cost[%s]" % name
        if name == 'PUSH':
            self.seeds = [dict(v=v, p0=p) for v in (0, 1, 255, 256, 2 ** 64, 2 ** 255, 2 ** 256 - 1) for p in (False, True)]

    def run(self, H):
        p0 = H.bool('p0')
        H.set_global(constants, 'push0_enabled', p0)
        name = self.item
        vint = None
        if name == 'PUSH':
            vint = H.word('v')
            value = H.hex_of(vint)
        elif name in ("PUSH [tag]", "PUSH data", "PUSH [$]", "PUSH #[$]", "PUSHLIB", "PUSHIMMUTABLE", "ASSIGNIMMUTABLE", "tag"):
            value = "1"
        else:
            value = None
        item = mk_item(H, name, value)
        out = H.call(AsmBytecode.bytes_required.fget, item)
        H.check('bytes:raises-nothing', out.ok, info=repr(out.exc))
        if out.ok:
            H.check('bytes=table', out.value == cost.item_bytes(name, vint, p0))
        out = H.call(AsmBytecode.gas_spent.fget, item)
        H.check('gas:raises-nothing', out.ok, info=repr(out.exc))
        if out.ok:
            if name == 'PUSH':
                H.check('gas=table', out.value == ite(sand(p0, vint == 0), 2, 3))
            else:
                g = cost.static_gas(name)
                if g is not None:
                    H.check('gas=table', out.value == g)
                else:
                    H.check('gas>=0', out.value >= 0)


def abstract_block(H, name, seq=None):
    """an AsmBlock whose instruction list is an abstract sequence (symbolic)"""
    b = AsmBlock.__new__(AsmBlock)
    b.__dict__.update(dict(contract_name='c', block_id=0, block_name=name, source_stack=0, is_init_block=False,
                           _jump_type=None, _jump_to=None, _falls_to=None, _tag=-1))
    b._instructions = seq if seq is not None else interp.AbstractSeq(name + '.instrs')
    return b


class BlockTotals(Case):
    """AsmBlock.bytes_required is the sum of the item figures, AsmBlock.length counts the non-tag items"""
    prop = 'C08'
    tier = 'P'
    name = "AsmBlock.bytes_required/length"
    functions = (AsmBlock.bytes_required.fget, AsmBlock.length.fget)
    assumptions = ("map/filter/sum over a list are the list homomorphisms (AbstractSeq summaries): the sum of the item figures "
                   "equals the sum of the oracle figures by the item-level obligations and sum congruence",)

    def run(self, H):
        if not H.symbolic:
            return
        b = abstract_block(H, 'B')
        S = b._instructions
        out = H.call(AsmBlock.bytes_required.fget, b)
        H.check('bytes:raises-nothing', out.ok, info=repr(out.exc))
        if out.ok:
            r = out.value
            ok = isinstance(r, Sym) and str(r.e).startswith('sum!B.instrs.map_')
            H.check('bytes=sum-over-all-items', ok, info=repr(r))
            m = [d for (k, key), d in S._derived.items() if k == 'map']
            H.check('bytes:summand-is-item.bytes_required', len(m) == 1 and "attr='bytes_required'" in m[0].key and 'filter' not in m[0].name)
        out = H.call(AsmBlock.length.fget, b)
        H.check('length:raises-nothing', out.ok, info=repr(out.exc))
        if out.ok:
            r = out.value
            f = [d for (k, key), d in S._derived.items() if k == 'filter']
            ok = len(f) == 1 and isinstance(r, Sym) and r.e.eq(f[0].derive('map', "Name(id='instruction', ctx=Store())|Constant(value=True)").length.e) \
                if f else False
            H.check('length=count(filter)', ok, info=repr(r))
            if f:
                H.check('length:filter-is-disasm!=tag', "attr='disasm'" in f[0].key and "NotEq()" in f[0].key and "Constant(value='tag')" in f[0].key,
                        info=f[0].key)


class ImprovesCriterion(Case):
    prop = 'C08'
    tier = 'P'
    functions = (gasol_asm.improves_criterion,)

    def __init__(self, n):
        self.n = n
        self.name = "improves_criterion[arity=%d]" % n

    def run(self, H):
        s = H.int('s')
        others = [H.int('o%d' % i) for i in range(self.n)]
        out = H.call(gasol_asm.improves_criterion, s, *others)
        H.check('raises-nothing', out.ok, info=repr(out.exc))
        if not out.ok:
            return
        spec = sor(s > 0, sand(s == 0, sand(*[o >= 0 for o in others]) if others else True,
                               sor(*[o > 0 for o in others]) if others else False))
        r = out.value
        H.check('returns-bool', isinstance(r, bool) or (isinstance(r, Sym) and r.kind == 'bool'))
        H.check('result<=>improves', sym.sym_eq(sym.truth(r) if isinstance(r, Sym) else bool(r), spec)
                if H.symbolic else (bool(r) == bool(spec)))


def stub_improves(it, s, *others):
    """contract of improves_criterion (proved by improves_criterion[arity=n])"""
    return sor(s > 0, sand(s == 0, sand(*[o >= 0 for o in others]) if others else True,
                           sor(*[o > 0 for o in others]) if others else False))


def cost_block(H, name):
    """a block characterised by its three cost figures (ghost values)"""
    by = H.int(name + '_bytes', 0)
    gs = H.int(name + '_gas', 0)
    ln = H.int(name + '_len', 0)
    if H.symbolic:
        b = abstract_block(H, name)
        b.__dict__['_ghost'] = (by, gs, ln)
        return b, (by, gs, ln)
    return types.SimpleNamespace(bytes_required=by, gas_spent=gs, length=ln), (by, gs, ln)


def _ghost(i):
    def st(it, self):
        return self.__dict__['_ghost'][i]
    return st


COST_STUBS = {
    'sfs_generator.asm_block.AsmBlock.bytes_required': _ghost(0),
    'sfs_generator.asm_block.AsmBlock.gas_spent': _ghost(1),
    'sfs_generator.asm_block.AsmBlock.length': _ghost(2),
}


class BlockHasBeenOptimized(Case):
    """accept a replacement only if it is no costlier in the chosen criterion, and (strictly cheaper, or equal and
    no worse in the other criteria with one strictly better); unknown criterion => reject"""
    prop = 'C08'
    tier = 'P'
    functions = (gasol_asm.block_has_been_optimized,)
    stubs = dict(COST_STUBS, **{'gasol_asm.improves_criterion': stub_improves})
    assumptions = ("cost figures of the two blocks are the values of AsmBlock.bytes_required/gas_spent/length (their own contracts)",)

    def __init__(self, crit):
        self.crit = crit
        self.name = "block_has_been_optimized[%s]" % crit
        self.carve = {}

    def run(self, H):
        o, (ob, og, ol) = cost_block(H, 'orig')
        n, (nb, ng, nl) = cost_block(H, 'new')
        out = H.call(gasol_asm.block_has_been_optimized, o, n, self.crit)
        H.check('raises-nothing', out.ok, info=repr(out.exc))
        if not out.ok:
            return
        r = out.value
        acc = sym.truth(r) if isinstance(r, Sym) else bool(r)
        saved = {'size': ob - nb, 'gas': og - ng, 'length': ol - nl}
        if self.crit not in saved:
            H.check('unknown-criterion=>reject', snot(acc))
            return
        s = saved[self.crit]
        others = [v for k, v in saved.items() if k != self.crit]
        H.check('accepted=>not-costlier', implies(acc, s >= 0))
        H.check('accepted=>strict-or-tie-with-gain', implies(acc, sor(s > 0, sand(s == 0, sor(*[o_ > 0 for o_ in others])))))
        H.check('accepted=>tie-no-worse-in-others', implies(sand(acc, s == 0), sand(*[o_ >= 0 for o_ in others])),
                info="tie in the criterion: every other criterion must be no worse")
        H.check('strictly-cheaper=>accepted', implies(s > 0, acc))


class CompareBestBlock(Case):
    """the returned sequence is one of the two candidates and the other candidate is not strictly cheaper
    (unless neither improves on the original, where the first candidate is returned by convention)"""
    prop = 'C08'
    tier = 'P'
    functions = (gasol_asm.compare_best_block,)

    def __init__(self, crit):
        self.crit = crit
        self.name = "compare_best_block[%s]" % crit

    def run(self, H):
        if not H.symbolic:
            return
        o = interp.AbstractSeq('orig')
        a = interp.AbstractSeq('superopt')
        g = interp.AbstractSeq('greedy')
        out = H.call(gasol_asm.compare_best_block, o, a, g, self.crit)
        H.check('raises-nothing', out.ok, info=repr(out.exc))
        if not out.ok:
            return
        seq, tag = out.value
        H.check('returns-a-candidate', seq is a or seq is g)

        def fig(S):
            if self.crit == 'length':
                return S.length
            attr = 'bytes_required' if self.crit == 'size' else 'gas_spent'
            m = [d for (k, key), d in S._derived.items() if k == 'map' and ("attr='%s'" % attr) in key]
            return m[0].total() if len(m) == 1 else None
        fo, fa, fg = fig(o), fig(a), fig(g)
        H.check('figures-are-the-criterion-sums', fo is not None and fa is not None and fg is not None)
        if fo is None or fa is None or fg is None:
            return
        if seq is a:
            H.check('chosen-not-beaten', sor(fa <= fg, sand(fa >= fo, fg >= fo)))
        else:
            H.check('chosen-not-beaten', fg <= fa)
            H.check('greedy-chosen=>improves', fg < fo)


class UpdateCounts(Case):
    """the running totals add exactly the per-block figures; nothing else changes"""
    prop = 'C08'
    tier = 'P'
    name = "update_counts"
    functions = (gasol_asm.update_gas_count, gasol_asm.update_size_count, gasol_asm.update_length_count)
    stubs = dict(COST_STUBS)

    def run(self, H):
        if not H.symbolic:
            return
        names = ['previous_gas', 'new_gas', 'previous_size', 'new_size', 'prev_n_instrs', 'new_n_instrs']
        init = {}
        for nm in names:
            init[nm] = H.int('g_' + nm)
            H.set_global(gasol_asm, nm, init[nm])
        o, (ob, og, ol) = cost_block(H, 'orig')
        n, (nb, ng, nl) = cost_block(H, 'new')
        for f in (gasol_asm.update_gas_count, gasol_asm.update_size_count):
            out = H.call(f, o, n)
            H.check(f.__name__ + ':raises-nothing', out.ok, info=repr(out.exc))
        g = lambda nm: H.get_global(gasol_asm, nm)
        H.check('gas-totals', sand(g('previous_gas') == init['previous_gas'] + og, g('new_gas') == init['new_gas'] + ng))
        H.check('size-totals', sand(g('previous_size') == init['previous_size'] + ob, g('new_size') == init['new_size'] + nb))
        H.check('frame(other-counters-unchanged)', sand(g('prev_n_instrs') == init['prev_n_instrs'], g('new_n_instrs') == init['new_n_instrs']))
        # length: count of non-tag items of each block
        out = H.call(gasol_asm.update_length_count, o, n)
        H.check('update_length_count:raises-nothing', out.ok, info=repr(out.exc))
        fo = [d for (k, key), d in o._instructions._derived.items() if k == 'filter']
        fn = [d for (k, key), d in n._instructions._derived.items() if k == 'filter']
        ok = len(fo) == 1 and len(fn) == 1 and "Constant(value='tag')" in fo[0].key and "NotEq()" in fo[0].key
        H.check('length-filter-is-non-tag', ok)
        if ok:
            H.check('length-totals', sand(g('prev_n_instrs') == init['prev_n_instrs'] + fo[0].length,
                                          g('new_n_instrs') == init['new_n_instrs'] + fn[0].length))
            H.check('frame(gas/size-unchanged-by-length-update)', sand(g('previous_gas') == init['previous_gas'] + og,
                                                                       g('new_size') == init['new_size'] + nb))


# ---------------------------------------------------------------------------------------------------------------------------------
# bounded stand-ins of the end-to-end clauses: the whole tool on corpus blocks, costs measured independently
import json
import re
from pyvc.harness import NativeCase
from specs import evmexec, gasmodel
from . import pipeline, blocks as corpus, docs
from .common import plain_names, cleanup_tmp


def indep_size(items):
    return sum(cost.item_bytes(n if n != 'PUSH' else 'PUSH', v if n == 'PUSH' else None, push0=True) if n == 'PUSH' or n in cost.PSEUDO_PUSH_BYTES
               else (cost.PSEUDO_PUSH_BYTES.get(n.split(' ')[0] + (' ' + n.split(' ')[1] if n.startswith('PUSH ') else ''), 1) if n.startswith('PUSH') else 1)
               for n, v in items)


def indep_length(items):
    return sum(1 for n, _ in items if n not in ('tag',))


STORAGE_BLOCKS = [
    "PUSH 5 SLOAD PUSH 0 MSTORE PUSH 0 PUSH 0 LOG0 ADDMOD ADDMOD SHL NOT ADDMOD ADDMOD MULMOD ISZERO PUSH 5 SLOAD POP STOP",
    "ADDMOD ADDMOD SHL NOT ADDMOD ADDMOD MULMOD ISZERO DUP1 PUSH 5 SSTORE PUSH 5 SSTORE STOP",
    "MUL PUSH 3 ADDMOD PUSH 3 SLOAD ADD PUSH 1 PUSH 2 ADD SSTORE STOP",
    "MUL PUSH 3 ADDMOD PUSH 0 MLOAD SLOAD ADD DUP1 PUSH 0 MSTORE8 PUSH 1 PUSH 1 SUB MLOAD SLOAD ADD STOP",
    "PUSH 0 SLOAD PUSH 20 PUSH 0 LOG0 PUSH 0 SLOAD PUSH 1 PUSH 2 ADD ADD ADD STOP",
    "DUP1 SLOAD DUP2 SLOAD ADD SWAP1 SSTORE", "PUSH 1 SLOAD PUSH 1 SLOAD ADD PUSH 2 SSTORE", "DUP1 SLOAD PUSH 1 ADD DUP2 SSTORE SLOAD",
    "ADDMOD ADDMOD SHL NOT ADDMOD ADDMOD MULMOD ISZERO DUP1 PUSH 5 SSTORE PUSH 5 SLOAD STOP",
    "PUSH 7 DUP2 SSTORE PUSH 8 DUP2 SSTORE POP", "DUP2 DUP2 SSTORE DUP2 DUP2 SSTORE POP POP", "PUSH 0 SLOAD POP PUSH 0 SLOAD",
]


# files of several blocks (one per line; JUMP ends a block, JUMPDEST starts one): a costly block first, then blocks that are split
# (LOG, GAS, CALL...) and whose first sub block has a tempting candidate that is worse in some criterion
MULTI_BLOCK_FILES = [
    ["PUSH 1 PUSH 2 PUSH 3 PUSH 4 PUSH 5 SWAP4 SWAP3 SWAP2 JUMP", "JUMPDEST PUSH 40 DUP1 PUSH 0 DUP1 LOG1 PUSH 7 ADD"],
    ["PUSH ffffffffffffffffffffffffffffffff PUSH ffffffffffffffffffffffffffffffff PUSH ffffffffffffffffffffffffffffffff SWAP2 SWAP1 JUMP",
     "JUMPDEST PUSH 40 DUP1 DUP1 DUP1 LOG2 PUSH 2 EXP GAS POP PUSH 20 DUP1 ADD SWAP1 JUMP", "JUMPDEST PUSH 2 EXP PUSH 0 DUP1 LOG0 PUSH 1 PUSH 1 ADD"],
    ["DUP3 DUP3 DUP3 ADDMOD SWAP3 POP POP POP PUSH 1 PUSH 2 PUSH 3 PUSH 4 SWAP3 JUMP", "JUMPDEST PUSH 20 DUP1 PUSH 0 DUP1 DUP1 LOG3 PUSH 40 DUP1 GAS ADD ADD SWAP1 JUMP",
     "JUMPDEST CALLER DUP1 PUSH 0 DUP1 LOG0 POP POP"],
]


class EndToEndCost(NativeCase):
    """bounded: the tool (greedy back end) on corpus blocks under the three criteria; gas, bytes and instruction count of the
    input and of the emitted block are measured by specs/gasmodel.py and specs/cost.py, not by the tool"""
    prop = 'C08'
    name = "end-to-end-cost(bounded)"
    functions = (gasol_asm.execute_gasol, gasol_asm.optimize_isolated_asm_block)
    weight = 100

    def run_native(self, tier):
        from .c10 import EDGE_BLOCKS
        blocks = list(corpus.BASE_BLOCKS) + STORAGE_BLOCKS + (list(EDGE_BLOCKS) if tier != 'quick' else [])
        n_states = 6 if tier == 'quick' else 20
        changed = 0
        for b in blocks:
            toks = corpus.tokens(b)
            text = pipeline.plain_text(toks)
            items_in = evmexec.parse_plain(toks)
            depth = utils.compute_stack_size(plain_names(toks))
            for crit, opts in (('gas', []), ('size', ['-size']), ('length', ['-length'])):
                r = pipeline.run_cli(text, opts, timeout=30)
                if r['output'] is None:
                    continue
                out_line = r['output'].strip().split('\n')[0]
                items_out = pipeline.parse_output_block(out_line)
                inp = dict(block=text, criterion=crit, output=out_line)
                # the printed total is the tool's own figure of the text it wrote (one block: the total is that block)
                m = re.search(r"Estimated gas optimized: (\d+)", r.get('stdout') or '')
                if m:
                    try:
                        import sfs_generator.parser_asm as parser_asm
                        again = parser_asm.parse_blocks_from_plain_instructions(out_line)
                        fig = sum(b_.gas_spent for b_ in again)
                        self.ob('printed optimized gas = gas figure of the emitted text', int(m.group(1)) == fig, inputs=inp,
                                info="printed %s, the emitted text is priced %d by AsmBlock.gas_spent" % (m.group(1), fig))
                    except BaseException:
                        pass
                if items_out == items_in:
                    continue
                changed += 1
                fig_in = dict(size=indep_size(items_in), length=indep_length(items_in))
                fig_out = dict(size=indep_size(items_out), length=indep_length(items_out))
                worst = None
                try:
                    for st in evmexec.sample_stacks(depth, n=n_states, seed=3):
                        gi, go_ = gasmodel.gas_of(items_in, st, 0), gasmodel.gas_of(items_out, st, 0)
                        if worst is None or go_ - gi > worst[0]:
                            worst = (go_ - gi, gi, go_, [hex(x) for x in st])
                except (evmexec.Underflow, KeyError):
                    worst = None
                if crit == 'gas':
                    if worst is not None:
                        self.ob('emitted block costs no more than its input [gas]', worst[0] <= 0, inputs=dict(inp, state=worst[3]),
                                info="gas %d -> %d on that state" % (worst[1], worst[2]))
                else:
                    self.ob('emitted block costs no more than its input [%s]' % crit, fig_out[crit] <= fig_in[crit], inputs=inp,
                            info="%s %d -> %d" % (crit, fig_in[crit], fig_out[crit]))
        # files of several blocks: what the acceptance test measures a sub block against must not come from a block processed
        # before (seed C08-5: a split block after a costlier one)
        for lines in MULTI_BLOCK_FILES:
            toks_l = [corpus.tokens(b) for b in lines]
            text = "\n".join(pipeline.plain_text(t) for t in toks_l) + "\n"
            for crit, opts in (('gas', []), ('size', ['-size']), ('length', ['-length'])):
                r = pipeline.run_cli(text, opts, timeout=60)
                if r['output'] is None:
                    continue
                outs = [l for l in r['output'].strip().split('\n') if l.strip()]
                self.ob('one emitted block per input block', len(outs) == len(lines), inputs=dict(file=lines, criterion=crit), info=outs)
                if len(outs) != len(lines):
                    continue
                for toks, out_line in zip(toks_l, outs):
                    items_in, items_out = evmexec.parse_plain(toks), pipeline.parse_output_block(out_line)
                    if items_out == items_in:
                        continue
                    changed += 1
                    inp = dict(file=lines, block=pipeline.plain_text(toks), criterion=crit, output=out_line)
                    if crit == 'gas':
                        worst = None
                        try:
                            for st in evmexec.sample_stacks(utils.compute_stack_size(plain_names(toks)), n=n_states, seed=3):
                                gi, go_ = gasmodel.gas_of(items_in, st, 0), gasmodel.gas_of(items_out, st, 0)
                                if worst is None or go_ - gi > worst[0]:
                                    worst = (go_ - gi, gi, go_, [hex(x) for x in st])
                        except (evmexec.Underflow, KeyError):
                            worst = None
                        if worst is not None:
                            self.ob('emitted block costs no more than its input [gas]', worst[0] <= 0, inputs=dict(inp, state=worst[3]),
                                    info="gas %d -> %d on that state" % (worst[1], worst[2]))
                    else:
                        fi = indep_size(items_in) if crit == 'size' else indep_length(items_in)
                        fo = indep_size(items_out) if crit == 'size' else indep_length(items_out)
                        self.ob('emitted block costs no more than its input [%s]' % crit, fo <= fi, inputs=inp, info="%s %d -> %d" % (crit, fi, fo))
        self.assumptions = ("bounded: %d blocks and %d files of several blocks x 3 criteria, %d emitted blocks differ from their input; gas on %d sampled "
                            "states with an empty warm set at block entry" % (len(blocks), len(MULTI_BLOCK_FILES), changed, n_states + 5 + 15),)
        cleanup_tmp()


class GasFigureLiteralKeys(NativeCase):
    """bounded: AsmBlock.gas_spent (the figure block_has_been_optimized compares under the gas criterion) equals the independent
    execution gas (specs/gasmodel.py: EIP-2929 warm/cold per slot and account, store classes) on every sequence of at most N accesses
    to two literal storage slots and two accounts - loads, first and repeated stores, in every order (seed C08-7: a stored slot not
    warm for a later load)"""
    prop = 'C08'
    name = "gas-figure-of-storage-accesses=independent-gas(bounded)"
    functions = (AsmBlock.gas_spent.fget,)

    def run_native(self, tier):
        import itertools
        import sfs_generator.parser_asm as parser_asm
        ops = ["PUSH 5 SLOAD POP", "PUSH 6 SLOAD POP", "PUSH 7 PUSH 5 SSTORE", "PUSH 8 PUSH 6 SSTORE", "PUSH 9 PUSH 5 SSTORE", "ADDRESS BALANCE POP",
               "CALLER BALANCE POP", "CALLER EXTCODESIZE POP"]
        N = 3 if tier == 'quick' else 4
        n = 0
        for L in range(1, N + 1):
            for seq in itertools.product(ops, repeat=L):
                toks = corpus.tokens(" ".join(seq))
                blk = parser_asm.parse_blocks_from_plain_instructions(pipeline.plain_text(toks))[0]
                ref = gasmodel.gas_of(evmexec.parse_plain(toks), [], 1)
                fig = blk.gas_spent
                n += 1
                self.ob('gas figure of the block = independent execution gas', fig == ref, inputs=dict(block=" ".join(seq)),
                        info="AsmBlock.gas_spent = %d, independent = %d" % (fig, ref))
        self.assumptions = ("bounded: %d blocks (all sequences of <= %d accesses over 8 access instructions with literal keys); empty warm set and "
                            "original = current value at block entry" % (n, N),)


class SingleJsonOutput(NativeCase):
    """bounded: the file written for a -single-json input holds the same (optimized) code as the asm-json run on a document with
    that contract - the printed totals describe that code, not the input"""
    prop = 'C08'
    name = "single-json-output-is-the-optimized-contract(bounded)"
    functions = (gasol_asm.optimize_asm_in_asm_format, gasol_asm.optimize_asm_from_asm_json)

    def run_native(self, tier):
        run_blocks = [corpus.tokens(b) for b in ("PUSH 1 PUSH 2 ADD PUSH 7 SSTORE PUSH 20 PUSH 20 ADD PUSH 8 SSTORE", "DUP1 DUP1 XOR ADD", "PUSH 0 ADD PUSH 1 MUL")]
        doc = docs.document([corpus.tokens("PUSH 3 PUSH 4 ADD POP")], run_blocks, with_noasm=False)
        contract = doc["contracts"]["f.sol:C"]["asm"]
        for opts in ([], ['-size']):
            r1 = pipeline.run_cli(docs.dumps(doc), opts, timeout=120, fmt='')
            r2 = pipeline.run_cli(json.dumps(contract), opts, timeout=120, fmt='-single-json')
            inp = dict(opts=opts)
            if r1['output'] is None or r2['output'] is None:
                self.ob('an output file is written', False, inputs=inp, info=(r1.get('exc'), r2.get('exc')))
                continue
            a1 = json.loads(r1['output'])["contracts"]["f.sol:C"]["asm"]
            a2 = json.loads(r2['output'])
            self.ob('same code in the -single-json output as in the asm-json output', a1.get(".code") == a2.get(".code") and a1.get(".data") == a2.get(".data"),
                    inputs=inp, info="%d vs %d items of runtime code" % (len(a1[".data"]["0"][".code"]), len(a2.get(".data", {}).get("0", {}).get(".code", []))))
        cleanup_tmp()


def cases(tier='quick'):
    cs = [ItemCost(n) for n in (['PUSH'] + PSEUDO + BASIC)]
    cs.append(BlockTotals())
    cs += [ImprovesCriterion(n) for n in range(0, 5)]
    cs += [BlockHasBeenOptimized(c) for c in ('size', 'gas', 'length', 'other')]
    cs += [CompareBestBlock(c) for c in ('size', 'gas', 'length')]
    cs.append(UpdateCounts())
    cs += [EndToEndCost(), GasFigureLiteralKeys(), SingleJsonOutput()]
    return cs, dict(item_vocabulary=len(BASIC) + len(PSEUDO) + 1)
