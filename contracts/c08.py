"""C08 - optimization never makes a block costlier in the chosen criterion.

Functions under contract:
  utils.get_ins_size, utils.get_push_number_hex, utils.get_num_bytes_int      (P, vs independent byte table)
  AsmBytecode.bytes_required / gas_spent / gas_spent_accesses                 (F over the item vocabulary x P over the operand)
  opcodes.get_ins_cost                                                        (F)
  AsmBlock.bytes_required / length                                            (P, list homomorphisms)
  gasol_asm.improves_criterion, block_has_been_optimized, compare_best_block,
  choose_best_solution, update_gas_count/size_count/length_count              (P)
"""
import types
import z3

from pyvc import sym, interp
from pyvc.sym import Sym, WORD, ite, sand, sor, snot, implies
from pyvc.harness import Case
from specs import cost
from .common import go, utils, opcodes, asm_bytecode, asm_block, constants
import gasol_asm

AsmBytecode = asm_bytecode.AsmBytecode
AsmBlock = asm_block.AsmBlock

BASIC = sorted(set(opcodes.opcodes.keys()) | {"RETURNDATASIZE", "RETURNDATACOPY", "SELFDESTRUCT", "JUMPDEST", "PC",
                                             "MSIZE", "GAS", "JUMP", "JUMPI", "STOP", "RETURN", "REVERT", "INVALID"})
BASIC = [o for o in BASIC if not o.startswith("PUSH")] + ["DUP%d" % i for i in range(1, 17)] + ["SWAP%d" % i for i in range(1, 17)]
PSEUDO = ["PUSH [tag]", "PUSH data", "PUSH [$]", "PUSH #[$]", "PUSHSIZE", "PUSHLIB", "PUSHDEPLOYADDRESS", "PUSHIMMUTABLE",
          "ASSIGNIMMUTABLE", "tag", "PUSH0"]


def mk_item(H, name, value):
    out = H.call(AsmBytecode, -1, -1, -1, name, value)
    assert out.ok, out.exc
    return out.value


class ItemCost(Case):
    """bytes_required / gas_spent of one assembly item against the independent tables, for both PUSH0 settings"""
    prop = 'C08'
    tier = 'P'
    functions = (AsmBytecode.bytes_required.fget, AsmBytecode.gas_spent.fget, asm_bytecode.is_push0,
                 utils.get_ins_size, utils.get_num_bytes_int, utils.number_encoding_size, opcodes.get_ins_cost)
    max_steps = 1000

    def __init__(self, name):
        self.item = name
        self.name = "item_cost[%s]" % name
        if name == 'PUSH':
            self.seeds = [dict(v=v, p0=p) for v in (0, 1, 255, 256, 2 ** 64, 2 ** 255, 2 ** 256 - 1) for p in (False, True)]

    def run(self, H):
        p0 = H.bool('p0')
        H.set_global(constants, 'push0_enabled', p0)
        name = self.item
        vint = None
        if name == 'PUSH':
            vint = H.word('v')
            value = H.hex_of(vint)
        elif name in ("PUSH [tag]", "PUSH data", "PUSH [$]", "PUSH #[$]", "PUSHLIB", "PUSHIMMUTABLE", "ASSIGNIMMUTABLE", "tag"):
            value = "1"
        else:
            value = None
        item = mk_item(H, name, value)
        out = H.call(AsmBytecode.bytes_required.fget, item)
        H.check('bytes:raises-nothing', out.ok, info=repr(out.exc))
        if out.ok:
            H.check('bytes=table', out.value == cost.item_bytes(name, vint, p0))
        out = H.call(AsmBytecode.gas_spent.fget, item)
        H.check('gas:raises-nothing', out.ok, info=repr(out.exc))
        if out.ok:
            if name == 'PUSH':
                H.check('gas=table', out.value == ite(sand(p0, vint == 0), 2, 3))
            else:
                g = cost.static_gas(name)
                if g is not None:
                    H.check('gas=table', out.value == g)
                else:
                    H.check('gas>=0', out.value >= 0)


def abstract_block(H, name, seq=None):
    """an AsmBlock whose instruction list is an abstract sequence (symbolic)"""
    b = AsmBlock.__new__(AsmBlock)
    b.__dict__.update(dict(contract_name='c', block_id=0, block_name=name, source_stack=0, is_init_block=False,
                           _jump_type=None, _jump_to=None, _falls_to=None, _tag=-1))
    b._instructions = seq if seq is not None else interp.AbstractSeq(name + '.instrs')
    return b


class BlockTotals(Case):
    """AsmBlock.bytes_required is the sum of the item figures, AsmBlock.length counts the non-tag items"""
    prop = 'C08'
    tier = 'P'
    name = "AsmBlock.bytes_required/length"
    functions = (AsmBlock.bytes_required.fget, AsmBlock.length.fget)
    assumptions = ("map/filter/sum over a list are the list homomorphisms (AbstractSeq summaries): the sum of the item figures "
                   "equals the sum of the oracle figures by the item-level obligations and sum congruence",)

    def run(self, H):
        if not H.symbolic:
            return
        b = abstract_block(H, 'B')
        S = b._instructions
        out = H.call(AsmBlock.bytes_required.fget, b)
        H.check('bytes:raises-nothing', out.ok, info=repr(out.exc))
        if out.ok:
            r = out.value
            ok = isinstance(r, Sym) and str(r.e).startswith('sum!B.instrs.map_')
            H.check('bytes=sum-over-all-items', ok, info=repr(r))
            m = [d for (k, key), d in S._derived.items() if k == 'map']
            H.check('bytes:summand-is-item.bytes_required', len(m) == 1 and "attr='bytes_required'" in m[0].key and 'filter' not in m[0].name)
        out = H.call(AsmBlock.length.fget, b)
        H.check('length:raises-nothing', out.ok, info=repr(out.exc))
        if out.ok:
            r = out.value
            f = [d for (k, key), d in S._derived.items() if k == 'filter']
            ok = len(f) == 1 and isinstance(r, Sym) and r.e.eq(f[0].derive('map', "Name(id='instruction', ctx=Store())|Constant(value=True)").length.e) \
                if f else False
            H.check('length=count(filter)', ok, info=repr(r))
            if f:
                H.check('length:filter-is-disasm!=tag', "attr='disasm'" in f[0].key and "NotEq()" in f[0].key and "Constant(value='tag')" in f[0].key,
                        info=f[0].key)


class ImprovesCriterion(Case):
    prop = 'C08'
    tier = 'P'
    functions = (gasol_asm.improves_criterion,)

    def __init__(self, n):
        self.n = n
        self.name = "improves_criterion[arity=%d]" % n

    def run(self, H):
        s = H.int('s')
        others = [H.int('o%d' % i) for i in range(self.n)]
        out = H.call(gasol_asm.improves_criterion, s, *others)
        H.check('raises-nothing', out.ok, info=repr(out.exc))
        if not out.ok:
            return
        spec = sor(s > 0, sand(s == 0, sand(*[o >= 0 for o in others]) if others else True,
                               sor(*[o > 0 for o in others]) if others else False))
        r = out.value
        H.check('returns-bool', isinstance(r, bool) or (isinstance(r, Sym) and r.kind == 'bool'))
        H.check('result<=>improves', sym.sym_eq(sym.truth(r) if isinstance(r, Sym) else bool(r), spec)
                if H.symbolic else (bool(r) == bool(spec)))


def stub_improves(it, s, *others):
    """contract of improves_criterion (proved by improves_criterion[arity=n])"""
    return sor(s > 0, sand(s == 0, sand(*[o >= 0 for o in others]) if others else True,
                           sor(*[o > 0 for o in others]) if others else False))


def cost_block(H, name):
    """a block characterised by its three cost figures (ghost values)"""
    by = H.int(name + '_bytes', 0)
    gs = H.int(name + '_gas', 0)
    ln = H.int(name + '_len', 0)
    if H.symbolic:
        b = abstract_block(H, name)
        b.__dict__['_ghost'] = (by, gs, ln)
        return b, (by, gs, ln)
    return types.SimpleNamespace(bytes_required=by, gas_spent=gs, length=ln), (by, gs, ln)


def _ghost(i):
    def st(it, self):
        return self.__dict__['_ghost'][i]
    return st


COST_STUBS = {
    'sfs_generator.asm_block.AsmBlock.bytes_required': _ghost(0),
    'sfs_generator.asm_block.AsmBlock.gas_spent': _ghost(1),
    'sfs_generator.asm_block.AsmBlock.length': _ghost(2),
}


class BlockHasBeenOptimized(Case):
    """accept a replacement only if it is no costlier in the chosen criterion, and (strictly cheaper, or equal and
    no worse in the other criteria with one strictly better); unknown criterion => reject"""
    prop = 'C08'
    tier = 'P'
    functions = (gasol_asm.block_has_been_optimized,)
    stubs = dict(COST_STUBS, **{'gasol_asm.improves_criterion': stub_improves})
    assumptions = ("cost figures of the two blocks are the values of AsmBlock.bytes_required/gas_spent/length (their own contracts)",)

    def __init__(self, crit):
        self.crit = crit
        self.name = "block_has_been_optimized[%s]" % crit
        self.carve = {}

    def run(self, H):
        o, (ob, og, ol) = cost_block(H, 'orig')
        n, (nb, ng, nl) = cost_block(H, 'new')
        out = H.call(gasol_asm.block_has_been_optimized, o, n, self.crit)
        H.check('raises-nothing', out.ok, info=repr(out.exc))
        if not out.ok:
            return
        r = out.value
        acc = sym.truth(r) if isinstance(r, Sym) else bool(r)
        saved = {'size': ob - nb, 'gas': og - ng, 'length': ol - nl}
        if self.crit not in saved:
            H.check('unknown-criterion=>reject', snot(acc))
            return
        s = saved[self.crit]
        others = [v for k, v in saved.items() if k != self.crit]
        H.check('accepted=>not-costlier', implies(acc, s >= 0))
        H.check('accepted=>strict-or-tie-with-gain', implies(acc, sor(s > 0, sand(s == 0, sor(*[o_ > 0 for o_ in others])))))
        H.check('accepted=>tie-no-worse-in-others', implies(sand(acc, s == 0), sand(*[o_ >= 0 for o_ in others])),
                info="tie in the criterion: every other criterion must be no worse")
        H.check('strictly-cheaper=>accepted', implies(s > 0, acc))


class CompareBestBlock(Case):
    """the returned sequence is one of the two candidates and the other candidate is not strictly cheaper
    (unless neither improves on the original, where the first candidate is returned by convention)"""
    prop = 'C08'
    tier = 'P'
    functions = (gasol_asm.compare_best_block,)

    def __init__(self, crit):
        self.crit = crit
        self.name = "compare_best_block[%s]" % crit

    def run(self, H):
        if not H.symbolic:
            return
        o = interp.AbstractSeq('orig')
        a = interp.AbstractSeq('superopt')
        g = interp.AbstractSeq('greedy')
        out = H.call(gasol_asm.compare_best_block, o, a, g, self.crit)
        H.check('raises-nothing', out.ok, info=repr(out.exc))
        if not out.ok:
            return
        seq, tag = out.value
        H.check('returns-a-candidate', seq is a or seq is g)

        def fig(S):
            if self.crit == 'length':
                return S.length
            attr = 'bytes_required' if self.crit == 'size' else 'gas_spent'
            m = [d for (k, key), d in S._derived.items() if k == 'map' and ("attr='%s'" % attr) in key]
            return m[0].total() if len(m) == 1 else None
        fo, fa, fg = fig(o), fig(a), fig(g)
        H.check('figures-are-the-criterion-sums', fo is not None and fa is not None and fg is not None)
        if fo is None or fa is None or fg is None:
            return
        if seq is a:
            H.check('chosen-not-beaten', sor(fa <= fg, sand(fa >= fo, fg >= fo)))
        else:
            H.check('chosen-not-beaten', fg <= fa)
            H.check('greedy-chosen=>improves', fg < fo)


class UpdateCounts(Case):
    """the running totals add exactly the per-block figures; nothing else changes"""
    prop = 'C08'
    tier = 'P'
    name = "update_counts"
    functions = (gasol_asm.update_gas_count, gasol_asm.update_size_count, gasol_asm.update_length_count)
    stubs = dict(COST_STUBS)

    def run(self, H):
        if not H.symbolic:
            return
        names = ['previous_gas', 'new_gas', 'previous_size', 'new_size', 'prev_n_instrs', 'new_n_instrs']
        init = {}
        for nm in names:
            init[nm] = H.int('g_' + nm)
            H.set_global(gasol_asm, nm, init[nm])
        o, (ob, og, ol) = cost_block(H, 'orig')
        n, (nb, ng, nl) = cost_block(H, 'new')
        for f in (gasol_asm.update_gas_count, gasol_asm.update_size_count):
            out = H.call(f, o, n)
            H.check(f.__name__ + ':raises-nothing', out.ok, info=repr(out.exc))
        g = lambda nm: H.get_global(gasol_asm, nm)
        H.check('gas-totals', sand(g('previous_gas') == init['previous_gas'] + og, g('new_gas') == init['new_gas'] + ng))
        H.check('size-totals', sand(g('previous_size') == init['previous_size'] + ob, g('new_size') == init['new_size'] + nb))
        H.check('frame(other-counters-unchanged)', sand(g('prev_n_instrs') == init['prev_n_instrs'], g('new_n_instrs') == init['new_n_instrs']))
        # length: count of non-tag items of each block
        out = H.call(gasol_asm.update_length_count, o, n)
        H.check('update_length_count:raises-nothing', out.ok, info=repr(out.exc))
        fo = [d for (k, key), d in o._instructions._derived.items() if k == 'filter']
        fn = [d for (k, key), d in n._instructions._derived.items() if k == 'filter']
        ok = len(fo) == 1 and len(fn) == 1 and "Constant(value='tag')" in fo[0].key and "NotEq()" in fo[0].key
        H.check('length-filter-is-non-tag', ok)
        if ok:
            H.check('length-totals', sand(g('prev_n_instrs') == init['prev_n_instrs'] + fo[0].length,
                                          g('new_n_instrs') == init['new_n_instrs'] + fn[0].length))
            H.check('frame(gas/size-unchanged-by-length-update)', sand(g('previous_gas') == init['previous_gas'] + og,
                                                                       g('new_size') == init['new_size'] + nb))


def cases(tier='quick'):
    cs = [ItemCost(n) for n in (['PUSH'] + PSEUDO + BASIC)]
    cs.append(BlockTotals())
    cs += [ImprovesCriterion(n) for n in range(0, 5)]
    cs += [BlockHasBeenOptimized(c) for c in ('size', 'gas', 'length', 'other')]
    cs += [CompareBestBlock(c) for c in ('size', 'gas', 'length')]
    cs.append(UpdateCounts())
    return cs, dict(item_vocabulary=len(BASIC) + len(PSEUDO) + 1)
