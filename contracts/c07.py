"""C07 - the Max-SMT problem keeps an optimal program and prices it correctly.

Objective accounting (decided for all assignments, parameters enumerated): for the real soft-constraint generators
    penalty(sigma) - sum_j w(sigma(t_j))  is the same for every assignment sigma of the positions that respects the position windows,
and the weights handed to them are the instruction costs of the chosen criterion.
Optimum preservation (bounded stand-in, model-level): for small specifications the optimum of the emitted problem, priced by
the independent cost tables, is the same under every pruning / bounds option set and equals the brute-force optimum over all
realizing sequences within the bound.  The universal statement over all specifications is NOT decided by this technique.
"""
import copy
import itertools
import re
import shutil

import z3

from pyvc.harness import NativeCase
from specs import formula as F, stackexec, cost
from .common import spec_of_block, cleanup_tmp
from . import blocks as corpus, pipeline
from .c06 import Z3Val, to_z3, mk_sf, build_optimizer, smt2_text, SMALL_BLOCKS
import smt_encoding.complete_encoding.synthesis_soft_constraints as ssc


class Bounds(object):
    def __init__(self, lb, ub, first, last):
        self.lb, self.ub, self.first_position_sequence, self.last_position_sequence = lb, ub, first, last

    def lower_bound_theta_value(self, t):
        return self.lb[t]

    def upper_bound_theta_value(self, t):
        return self.ub[t]


class SoftAccounting(NativeCase):
    prop = 'C07'
    name = "soft-constraints(objective = sum of instruction weights + constant)"
    functions = (ssc.soft_constraints_grouped_by_weight, ssc.soft_constraints_direct, ssc._generate_costs_ordered_dict,
                 ssc._generate_disjoint_sets_from_cost)
    weight = 60

    def run_native(self, tier):
        import random
        rnd = random.Random(3)
        n = 0
        b0s = (1, 2, 3) if tier == 'quick' else (1, 2, 3, 4)
        fams = []
        for b0 in b0s:
            for nt in (2, 3, 4, 5):
                for _ in range(6 if tier == 'quick' else 25):
                    w = dict((t, rnd.choice([0, 0, 1, 2, 3, 3, 5, 8, 100, 2100])) for t in range(nt))
                    lb = dict((t, rnd.randint(0, b0 - 1)) for t in range(nt))
                    ub = dict((t, rnd.randint(lb[t], b0 - 1)) for t in range(nt))
                    if rnd.random() < 0.4:
                        lb = dict((t, 0) for t in range(nt))
                        ub = dict((t, b0 - 1) for t in range(nt))
                    fams.append((b0, w, lb, ub))
        for b0, w, lb, ub in fams:
            bounds = Bounds(lb, ub, 0, b0 - 1)
            allowed = dict((j, [t for t in w if lb[t] <= j <= ub[t]]) for j in range(b0))
            if any(not allowed[j] for j in range(b0)):
                continue
            for gen in ('grouped', 'direct'):
                sf = mk_sf([])
                val = Z3Val()
                if gen == 'grouped':
                    softs = list(ssc.soft_constraints_grouped_by_weight(sf, b0, dict(w), bounds, "cost"))
                else:
                    softs = list(ssc.soft_constraints_direct(sf, dict(w), bounds, "cost"))
                ts = [val.i("t_%d" % j) for j in range(b0)]
                dom = [z3.Or(*[ts[j] == t for t in allowed[j]]) for j in range(b0)]
                pen = z3.IntVal(0)
                for s_ in softs:
                    fz = to_z3(s_.formula, val) if not isinstance(s_.formula, bool) else z3.BoolVal(s_.formula)
                    pen = pen + z3.If(fz, 0, s_.weight)
                true_cost = z3.IntVal(0)
                for j in range(b0):
                    e = z3.IntVal(0)
                    for t in allowed[j]:
                        e = z3.If(ts[j] == t, w[t], e)
                    true_cost = true_cost + e
                # reference assignment: the first allowed value everywhere
                ref = dict((j, allowed[j][0]) for j in range(b0))
                s = z3.Solver()
                s.add(*[ts[j] == ref[j] for j in range(b0)])
                s.check()
                K = s.model().eval(pen - true_cost, model_completion=True)
                s = z3.Solver()
                s.set('timeout', 20000)
                s.add(*dom)
                s.add(pen - true_cost != K)
                r = s.check()
                n += 1
                inp = dict(generator=gen, b0=b0, weights=w, lower=lb, upper=ub)
                if r == z3.sat:
                    m = s.model()
                    self.ob('penalty - cost is constant over all assignments', False, inputs=inp,
                            info="assignment %s: penalty-cost = %s, reference gives %s" % ([m.eval(t, model_completion=True) for t in ts], m.eval(pen - true_cost, model_completion=True), K))
                else:
                    self.ob('penalty - cost is constant over all assignments', r == z3.unsat, inputs=inp, info=str(r))
        self.assumptions = ("parameter-bounded: %d (weights, position windows) families with b0 <= %d and <= 5 instructions; every assignment decided by z3" % (n, max(b0s)),)


def seq_cost(spec, ids, crit, push0=True):
    byid = dict((u["id"], u) for u in spec["user_instrs"])
    total = 0
    for i in ids:
        if i == 'NOP':
            continue
        if i in byid:
            u = byid[i]
            d = u["disasm"]
            if crit == 'length':
                total += 1
            elif crit == 'size':
                if d in ('PUSH', 'PUSH0'):
                    total += cost.push_bytes(int(u["value"][0]) if d == 'PUSH' else 0, push0)
                else:
                    total += cost.item_bytes(d)
            else:
                g = cost.static_gas(d) if d not in ('PUSH0',) else 2
                total += g if g is not None else u["gas"]       # dynamic-cost opcodes: the tool's own figure (assumption)
        else:
            total += 1 if crit != 'gas' else (2 if i == 'POP' else 3)
    return total


class WeightsAreCosts(NativeCase):
    """the weight attached to each instruction in the soft constraints is its cost in the chosen criterion"""
    prop = 'C07'
    name = "weights=instruction-costs"

    def run_native(self, tier):
        from smt_encoding.complete_encoding.synthesis_full_encoding import FullEncoding
        self.functions = (FullEncoding.generate_soft_constraints,)
        blocks = ["PUSH 1 ADD", "PUSH ffffffffff ADD", "PUSH ffffffffffffffffffffffffffffffffffffffffffffffffffffffffffffffff AND", "DUP1 SLOAD SWAP1 SSTORE",
                  "CALLER PUSH 0 MSTORE", "PUSH 0 ADD PUSH 100 MUL"]
        for b in blocks:
            pipeline.reset_sticky_globals()
            spec, _ = spec_of_block(corpus.tokens(b), simplification=False)
            sfs = spec[list(spec)[0]]
            for crit, opt in (('gas', []), ('size', ['-size']), ('length', ['-length'])):
                bo, params, d = build_optimizer(copy.deepcopy(sfs), opt + ['-direct-inequalities'])
                fe = bo._full_encoding
                for ins in fe._instructions:
                    if ins.id == 'NOP':
                        continue
                    w = {'gas': ins.gas_cost, 'size': min(ins.size_cost, 5), 'length': 1}[crit]
                    # what the generator really uses: recompute through the real method's dictionary
                    true = seq_cost(sfs, [ins.id], crit)
                    used = {'gas': ins.gas_cost, 'size': ins.size_cost, 'length': 1}[crit]
                    self.ob('instruction cost attribute = independent table [%s]' % crit, used == true,
                            inputs=dict(block=b, instruction=ins.id, criterion=crit), info="attribute %s, table %s" % (used, true))
                shutil.rmtree(d, ignore_errors=True)


def soft_terms(text):
    """[(z3 formula, weight)] of the assert-soft lines of an emitted problem"""
    decls = '\n'.join(l for l in text.split('\n') if l.startswith('(declare-'))
    out = []
    for l in text.split('\n'):
        m = re.fullmatch(r"\(assert-soft (.*) :weight (\d+)( :id \S+)?\)", l.strip())
        if m:
            f = z3.parse_smt2_string(decls + "\n(assert %s)" % m.group(1))[0]
            out.append((f, int(m.group(2))))
    return out


class SoftMinusCostConstant(NativeCase):
    """soft(M) - cost(decode(M)) is the same for all models of one emitted problem (bounded model enumeration)"""
    prop = 'C07'
    name = "soft(M)-cost(decode(M))-is-constant-over-models(bounded)"
    weight = 90

    def run_native(self, tier):
        from smt_encoding.complete_encoding.synthesis_full_encoding import FullEncoding
        self.functions = (FullEncoding.generate_soft_constraints,)
        blocks = ["PUSH ffffffffffffffffffffffffffffffffffffffffffffffffffffffffffffffff DUP1", "PUSH ffffffffff DUP1 ADD", "PUSH 1 DUP1", "DUP2 ADD",
                  "PUSH ffffffffffffff SWAP1 POP PUSH ffffffffffffff", "CALLER DUP1", "PUSH 0 DUP1 SLOAD", "DUP2 DUP2 SSTORE SLOAD", "SWAP1 SUB"]
        cap = 40 if tier == 'quick' else 300
        n = 0
        for b in blocks:
            pipeline.reset_sticky_globals()
            spec, _ = spec_of_block(corpus.tokens(b), simplification=False)
            base = spec[list(spec)[0]]
            if base["init_progr_len"] > 5:
                continue
            for crit, copt in (('gas', []), ('size', ['-size']), ('length', ['-length'])):
                for opts in ([], ['-direct-inequalities'], ['-order-bounds']):
                    bo, params, d = build_optimizer(copy.deepcopy(base), copt + opts)
                    text = smt2_text(bo)
                    shutil.rmtree(d, ignore_errors=True)
                    o = z3.Optimize()
                    o.from_string(text.replace("(get-objectives)", "").replace("(get-model)", "").replace("(check-sat)", ""))
                    softs = soft_terms(text)
                    s_ = z3.Solver()
                    s_.add(*o.assertions())
                    seen = {}
                    k = 0
                    while k < cap and s_.check() == z3.sat:
                        m = s_.model()
                        k += 1
                        bo._solver._model = "sat\n" + m.sexpr()
                        ids = bo._rebuild_block_from_solver()
                        pen = sum(w for f, w in softs if not z3.is_true(m.eval(f, model_completion=True)))
                        c = seq_cost(base, ids, crit)
                        seen.setdefault(pen - c, (ids, pen, c))
                        ts = [dd for dd in m.decls() if re.fullmatch(r"t_\d+", dd.name())]
                        s_.add(z3.Or(*[dd() != m[dd] for dd in ts]))
                    n += 1
                    self.ob('soft - cost constant over the enumerated models', len(seen) <= 1, inputs=dict(block=b, criterion=crit, options=opts, models=k),
                            info=dict(("soft-cost=%d" % kk, dict(ids=v[0], soft=v[1], cost=v[2])) for kk, v in list(seen.items())[:3]))
        self.assumptions = ("bounded: %d emitted problems, at most %d models each" % (n, cap),)


OPTSETS7 = [[], ['-order-bounds'], ['-memory-encoding', 'l_vars'], ['-at-most', '-pushed-once'], ['-no-output-before-pop'], ['-order-conflicts'],
            ['-empty'], ['-term-encoding', 'stack_vars'], ['-direct-inequalities']]


def brute_force_optimum(spec, crit, b0):
    """minimum cost over all realizing id sequences of length <= b0 (padding with NOP)"""
    ids = [u["id"] for u in spec["user_instrs"]]
    bs = spec["max_sk_sz"]
    basic = ["POP"] + ["DUP%d" % k for k in range(1, min(bs, 17))] + ["SWAP%d" % k for k in range(1, min(bs, 17))]
    vocab = ids + basic
    best = None
    for L in range(0, b0 + 1):
        for seq in itertools.product(vocab, repeat=L):
            if stackexec.realizes(spec, list(seq)) is None:
                c = seq_cost(spec, seq, crit)
                if best is None or c < best[0]:
                    best = (c, list(seq))
    return best


class OptimumAcrossOptions(NativeCase):
    prop = 'C07'
    name = "optimum-is-independent-of-pruning-options-and-equals-brute-force(bounded)"
    weight = 100

    def run_native(self, tier):
        blocks = SMALL_BLOCKS if tier != 'quick' else SMALL_BLOCKS[:10] + SMALL_BLOCKS[-5:]
        # load -> possibly aliasing store -> reload shapes: the position bounds must not cut off the optimum
        blocks = list(blocks) + ["PUSH 1 PUSH 0 MLOAD SWAP1 CALLDATASIZE MSTORE PUSH 0 MLOAD ADD", "PUSH 0 SLOAD PUSH 0 SLOAD ADD",
                                 "DUP1 MLOAD DUP3 DUP3 MSTORE SWAP1 MLOAD ADD SWAP1 POP", "CALLVALUE PUSH 0 MLOAD PUSH 1 CALLDATASIZE MSTORE SWAP1 MLOAD ADD", "PUSH 0 SLOAD DUP2 PUSH 0 SSTORE PUSH 0 SLOAD ADD SWAP1 POP"]
        # a store fed by a load of an initial stack element through one more operation, with the (load, store) order dependency on top
        # (read-modify-write; seed C07-4), with and without slack in the length bound
        blocks += ["MLOAD ISZERO MSTORE", "SWAP1 SWAP1 MLOAD ISZERO MSTORE", "SLOAD PUSH 1 ADD SSTORE", "DUP1 SLOAD PUSH 1 ADD SWAP1 SSTORE",
                   "DUP1 MLOAD PUSH 1 ADD SWAP1 MSTORE", "DUP1 DUP1 POP SLOAD ISZERO SWAP1 SSTORE"]
        # stacks of 17 elements: the deepest DUP/SWAP must be in the vocabulary of the encoding (seed C07-7), and results that are computed
        # on top and sunk by one SWAPd (seed C07-8: the upper position bound shrinks with the depth in the final stack)
        blocks += ["SWAP16", "DUP16", "SWAP16 SWAP1", "SWAP15", "DUP16 ADD", "ISZERO DUP1 NOT SWAP2", "ADD DUP1 ISZERO SWAP2", "NOT DUP1 ISZERO SWAP3",
                   "DUP1 ISZERO SWAP2", "ISZERO DUP1 NOT DUP1 NOT SWAP3"]
        crits = [('gas', []), ('size', ['-size']), ('length', ['-length'])]
        n = 0
        for b in blocks:
            pipeline.reset_sticky_globals()
            try:
                spec, _ = spec_of_block(corpus.tokens(b))
            except BaseException:
                continue
            for key in spec:
                base = spec[key]
                b0 = base["init_progr_len"]
                if b0 == 0 or b0 > 9:
                    continue
                vocab = len(base["user_instrs"]) + 2 * min(base["max_sk_sz"], 17)
                bf = {}
                if b0 <= 4 and vocab ** b0 <= 300000:
                    for crit, _o in crits:
                        bf[crit] = brute_force_optimum(base, crit, b0)
                for crit, copt in crits:
                    found = {}
                    for opts in (OPTSETS7 if tier != 'quick' else OPTSETS7[:5]):
                        try:
                            bo, params, d = build_optimizer(copy.deepcopy(base), copt + opts)
                            text = smt2_text(bo)
                        except Exception as e:
                            # no problem at all (e.g. an empty disjunction where the position bounds leave no position): the optimal
                            # program is lost just the same - the block itself realizes its specification within the bound
                            self.ob('a Max-SMT problem is produced', False, inputs=dict(block=b, criterion=crit, options=opts), info=repr(e))
                            continue
                        self.ob('a Max-SMT problem is produced', True, inputs=dict(block=b, criterion=crit, options=opts))
                        shutil.rmtree(d, ignore_errors=True)
                        o = z3.Optimize()
                        o.set('timeout', 30000)
                        try:
                            o.from_string(text.replace("(get-objectives)", "").replace("(get-model)", "").replace("(check-sat)", ""))
                        except z3.Z3Exception:
                            continue
                        r = o.check()
                        inp = dict(block=b, criterion=crit, options=opts)
                        n += 1
                        self.ob('hard constraints satisfiable (a realizing sequence fits the bound)', r == z3.sat, inputs=inp, info=str(r))
                        if r != z3.sat:
                            continue
                        m = o.model()
                        bo._solver._model = "sat\n" + m.sexpr()
                        try:
                            ids = bo._rebuild_block_from_solver()
                        except BaseException as e:
                            self.ob('optimal model decodes', False, inputs=inp, info=repr(e))
                            continue
                        why = stackexec.realizes(base, ids)
                        self.ob('optimal model realizes the specification', why is None, inputs=dict(inp, ids=ids), info=why)
                        found[tuple(opts)] = (seq_cost(base, ids, crit), ids)
                    costs = set(c for c, _ in found.values())
                    self.ob('same optimum cost under every option set', len(costs) <= 1, inputs=dict(block=b, criterion=crit),
                            info=dict((' '.join(k) or 'default', v) for k, v in found.items()))
                    if crit in bf and bf[crit] is not None and found:
                        self.ob('optimum of the Max-SMT problem = brute-force optimum', min(costs) == bf[crit][0], inputs=dict(block=b, criterion=crit),
                                info=dict(maxsmt=sorted(costs), brute_force=bf[crit]))
        # -pop-uninterpreted: the specification names the POPs itself; the problem must exist and be satisfiable as well (finding F49)
        for b in ("SWAP1 POP", "POP POP", "DUP2 MUL SWAP1 POP", "SWAP1 POP PUSH 0 MSTORE", "POP PUSH 1 ADD"):
            pipeline.reset_sticky_globals()
            inp = dict(block=b, options=['-pop-uninterpreted'])
            try:
                spec, _ = spec_of_block(corpus.tokens(b), pop=True)
                base = spec[list(spec)[0]]
                bo, params, d = build_optimizer(copy.deepcopy(base), ['-pop-uninterpreted'])
                text = smt2_text(bo)
                shutil.rmtree(d, ignore_errors=True)
            except BaseException as e:
                self.ob('a specification and an encoding are produced under -pop-uninterpreted', False, inputs=inp, info=repr(e))
                continue
            self.ob('a specification and an encoding are produced under -pop-uninterpreted', True, inputs=inp)
            o = z3.Optimize()
            o.set('timeout', 30000)
            o.from_string(text.replace("(get-objectives)", "").replace("(get-model)", "").replace("(check-sat)", ""))
            r = o.check()
            n += 1
            self.ob('hard constraints satisfiable (a realizing sequence fits the bound)', r == z3.sat, inputs=inp, info=str(r))
        pipeline.reset_sticky_globals()
        self.assumptions = ("bounded: %d (specification, criterion, option set) problems with init_progr_len <= 9 (brute force for <= 4), solved with the z3 python API; "
                            "costs of dynamic-gas opcodes taken from the tool's own figure" % n,)
        cleanup_tmp()


def cases(tier='quick'):
    return [SoftAccounting(), WeightsAreCosts(), SoftMinusCostConstant(), OptimumAcrossOptions()], {}
