"""Shared helpers for the contract files: access to the real modules of /repo."""
import contextlib
import glob
import io
import os
import shutil
import sys

REPO = os.environ.get('GASOL_REPO', '/repo')
if REPO not in sys.path:
    sys.path.insert(0, REPO)
sys.dont_write_bytecode = True

import warnings
warnings.filterwarnings('ignore', category=SyntaxWarning)

import sfs_generator.gasol_optimization as go          # noqa: E402
import sfs_generator.ir_block as irb                   # noqa: E402
import sfs_generator.utils as utils                    # noqa: E402
import sfs_generator.opcodes as opcodes                # noqa: E402
import sfs_generator.asm_bytecode as asm_bytecode      # noqa: E402
import sfs_generator.asm_block as asm_block            # noqa: E402
import global_params.constants as constants            # noqa: E402
import global_params.paths as paths                    # noqa: E402


def plain_names(instrs):
    return [i.split()[0] if (i.startswith('PUSH') and ' ' in i and not i.startswith('PUSH [') and not i.startswith('PUSH #')
                             and not i.startswith('PUSH data')) else i for i in instrs]


def spec_of_block(instrs, simplification=True, storage=False, size=True, part=False, pop=False, push=True,
                  revert=False, block_name="b", input_stack=None):
    """run the real front end natively on one block; returns (sfs_dict['syrup_contract'], sub_block_list)"""
    n = utils.compute_stack_size(plain_names(instrs)) if input_stack is None else input_stack
    with contextlib.redirect_stdout(io.StringIO()), contextlib.redirect_stderr(io.StringIO()):
        code, sub = irb.evm2rbr_compiler(file_name="f", block={"instructions": list(instrs), "input": n}, block_id=0,
                                         block_name=block_name, simplification=simplification, storage=storage,
                                         size=size, part=part, pop=pop, push=push, revert=revert)
    return go.get_sfs_dict()["syrup_contract"], sub


def cleanup_tmp():
    """the optimizer writes /tmp/gasol_<uuid>/ ; remove what this process created"""
    try:
        p = paths.gasol_path
        if p and p.startswith('/tmp/gasol_') and os.path.isdir(p):
            shutil.rmtree(p, ignore_errors=True)
    except Exception:
        pass


def recorded_calls(module, fname, thunk):
    """run thunk() natively with module.fname wrapped by a recorder; returns list of (args, result|exc)"""
    orig = getattr(module, fname)
    calls = []

    def hook(*a, **k):
        try:
            r = orig(*a, **k)
        except BaseException as e:
            calls.append((a, ('exc', type(e).__name__)))
            raise
        calls.append((a, ('ok', r)))
        return r
    setattr(module, fname, hook)
    try:
        try:
            thunk()
        except BaseException:
            pass
    finally:
        setattr(module, fname, orig)
    return calls
