"""Spec-level lemmas used as ground-instantiated axioms by the Int rendering.

lemmas[bitwise]: every entry of pyvc.sym.BIT_LEMMAS is proved for all 256-bit vectors in the
pure bit-vector theory; the Int-level functions band/bor/bxor are *defined* as
bv2int(int2bv(a) op int2bv(b)) on words, and int2bv/bv2int are inverse bijections between
[0, 2^256) and BitVec(256) that map 0 to 0, 2^256-1 to ~0 and preserve unsigned order, so each
bit-vector statement transfers to its Int instance.
"""
import z3
from pyvc import sym
from pyvc.harness import Case


class BitLemmas(Case):
    prop = 'C03'
    tier = 'P'
    name = 'lemmas[bitwise]'
    assumptions = ("int2bv/bv2int are order-preserving inverse bijections between [0,2^256) and BitVec(256) (definition of band/bor/bxor)",)

    def run(self, H):
        if not H.symbolic:
            return
        x = z3.BitVec('lx', 256)
        y = z3.BitVec('ly', 256)
        for nm, (bvstmt, _) in sorted(sym.BIT_LEMMAS.items()):
            H.path.prove('bv:' + nm, bvstmt(x, y))
        # concrete sanity of the int instances (catches a typo in an instance builder)
        ws = [0, 1, 2, 0xff, 2 ** 255, 2 ** 256 - 1, 2 ** 256 - 2, 0xf0f0]
        fn = {'band': lambda a, b: a & b, 'bor': lambda a, b: a | b, 'bxor': lambda a, b: a ^ b}
        for nm, (_, inst) in sorted(sym.BIT_LEMMAS.items()):
            ok = True
            for a in ws:
                for b in ws:
                    e = inst(z3.IntVal(a), z3.IntVal(b))
                    subs = []
                    for f, pf in (('band', sym.band), ('bor', sym.bor), ('bxor', sym.bxor)):
                        for (p, q) in ((a, b), (b, a)):
                            subs.append((pf(z3.IntVal(p), z3.IntVal(q)), z3.IntVal(fn[f](p, q))))
                    v = z3.simplify(z3.substitute(e, *subs))
                    if not z3.is_true(v):
                        ok = False
            H.path.prove('int-instance:' + nm, z3.BoolVal(ok))


def cases(tier='quick'):
    return [BitLemmas()], {}
