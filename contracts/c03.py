"""C03 - simplification rules and constant folding are identities on 256-bit words.

Functions under contract (real code of sfs_generator/gasol_optimization.py):
  evaluate_expression, evaluate_expression_ter   (P, per opcode; operator obtained by tier F)
  apply_transform                                (P, per opcode of the dispatch list)
  check_size                                     (P)
  update_unary_func                              (P, constant branches)
"""
import z3

from pyvc import sym
from pyvc.sym import Sym, Val, WORD, ite, sand, sor, snot, implies
from pyvc.harness import Case
from specs.evm import evm, evm_py, evm_bv, BOUNDARY_WORDS, ARITY
from specs import cost
from .common import go, utils, spec_of_block, recorded_calls

rho = z3.Function('rho', z3.StringSort(), z3.IntSort())

FOLD_VOCAB = ["ADD", "MUL", "SUB", "DIV", "SDIV", "MOD", "SMOD", "EXP", "SIGNEXTEND", "LT", "GT", "SLT", "SGT",
              "EQ", "AND", "OR", "XOR", "BYTE", "SHL", "SHR", "SAR"]
FOLD3_VOCAB = ["ADDMOD", "MULMOD"]


def fold_table():
    """tier F: opcode -> (operator string, operand order) as used by the real front end, obtained by
    running the real pipeline on PUSH c PUSH b PUSH a OP with distinct constants and recording the call"""
    table = {}
    for op in FOLD_VOCAB:
        calls = recorded_calls(go, 'evaluate_expression',
                               lambda: spec_of_block(["PUSH 7", "PUSH 3", op]))
        calls = [c for c in calls if set(c[0][1:]) == {3, 7}]
        if calls:
            (funct, x, y) = calls[0][0]
            table[op] = (funct, 'ab' if (x, y) == (3, 7) else 'ba')
    table3 = {}
    for op in FOLD3_VOCAB:
        calls = recorded_calls(go, 'evaluate_expression_ter',
                               lambda: spec_of_block(["PUSH b", "PUSH 7", "PUSH 3", op]))
        calls = [c for c in calls if set(c[0][1:]) == {3, 7, 11}]
        if calls:
            funct, x, y, z = calls[0][0]
            order = ''.join({3: 'a', 7: 'b', 11: 'c'}[v] for v in (x, y, z))
            table3[op] = (funct, order)
    return table, table3


def _is_int(r):
    return (isinstance(r, int) and not isinstance(r, bool)) or (isinstance(r, Sym) and r.kind == 'int')


class FoldBinary(Case):
    prop = 'C03'
    tier = 'P'
    check_resources = True
    functions = (go.evaluate_expression,)
    assumptions = ("operator string of each opcode obtained by running the real translation on a single-instruction block (tier F)",)

    def __init__(self, op, funct, order):
        self.op, self.funct, self.order = op, funct, order
        self.name = "evaluate_expression[%s]" % op
        seeds = []
        for a in BOUNDARY_WORDS:
            for b in BOUNDARY_WORDS:
                if op == 'EXP' and b > 300:
                    continue
                seeds.append({'a': a, 'b': b})
        if op in ('SHL', 'SHR', 'SAR'):
            seeds += [{'a': 2 ** 40, 'b': 1}, {'a': 2 ** 256 - 1, 'b': 2 ** 256 - 1}]
        self.seeds = seeds

    def run(self, H):
        a = H.word('a')
        b = H.word('b')
        v0, v1 = (a, b) if self.order == 'ab' else (b, a)
        if not H.symbolic and self.op == 'EXP' and b > 2 ** 20:
            # native replay of an astronomically large power would not terminate: that *is* the resource violation
            H.check('resource:pow-exponent-bounded', False)
            return
        if not H.symbolic and self.op in ('SHL', 'SHR', 'SAR') and a > 2 ** 24:
            # run the fold under a memory cap: building an integer of `a` bits is the resource violation
            import resource
            soft, hard = resource.getrlimit(resource.RLIMIT_AS)
            resource.setrlimit(resource.RLIMIT_AS, (3 * 2 ** 30, hard))
            try:
                out = H.call(go.evaluate_expression, self.funct, v0, v1)
            finally:
                resource.setrlimit(resource.RLIMIT_AS, (soft, hard))
            if not out.ok and isinstance(out.exc, (MemoryError, OverflowError)):
                H.check('resource:pow-exponent-bounded', False)
                return
        out = H.call(go.evaluate_expression, self.funct, v0, v1)
        H.check('raises-nothing', out.ok, info=repr(out.exc))
        if not out.ok:
            return
        r = out.value
        H.check('result-is-int', _is_int(r), info=repr(r))
        if not _is_int(r):
            return
        H.check('result-is-word', sand(r >= 0, r < WORD))
        H.check('value=evm(%s)' % self.op, r == evm(self.op, a, b))


class FoldTernary(Case):
    prop = 'C03'
    tier = 'P'
    functions = (go.evaluate_expression_ter,)

    def __init__(self, op, funct, order):
        self.op, self.funct, self.order = op, funct, order
        self.name = "evaluate_expression_ter[%s]" % op
        ws = [0, 1, 2, 3, 2 ** 255, 2 ** 256 - 1, 2 ** 256 - 2]
        self.seeds = [{'a': a, 'b': b, 'c': c} for a in ws for b in ws for c in ws]

    def run(self, H):
        env = {'a': H.word('a'), 'b': H.word('b'), 'c': H.word('c')}
        args = [env[k] for k in self.order]
        out = H.call(go.evaluate_expression_ter, self.funct, *args)
        H.check('raises-nothing', out.ok, info=repr(out.exc))
        if not out.ok:
            return
        r = out.value
        H.check('result-is-int', _is_int(r), info=repr(r))
        if not _is_int(r):
            return
        H.check('result-is-word', sand(r >= 0, r < WORD))
        H.check('value=evm(%s)' % self.op, r == evm(self.op, env['a'], env['b'], env['c']))


# ---------------------------------------------------------------------------
TRANSFORM_OPS = ["AND", "OR", "XOR", "ADD", "SUB", "MUL", "DIV", "EXP", "EQ", "GT", "LT", "SGT", "SLT", "SDIV", "NOT",
                 "ISZERO", "SHL", "SHR"]


def operand(H, name):
    """a stack operand of a specification: a word constant or a variable name.
    Returns (value, denotation).  Precondition of the rule functions (wf of user instructions):
    ints are words; names are not numerals (they are s(k) / u-names)."""
    v = H.val(name)
    d = H.word(name + '_den')
    if H.symbolic:
        e = v.e
        H.assume(z3.Not(Val.is_VNone(e)))
        H.assume(z3.Implies(Val.is_VI(e), z3.And(Val.iv(e) >= 0, Val.iv(e) < WORD, Val.iv(e) == d.e)))
        H.assume(z3.Implies(Val.is_VS(e), z3.And(z3.Not(sym.numeral(Val.sv(e))), rho(Val.sv(e)) == d.e,
                                                  z3.Length(Val.sv(e)) > 0)))
    else:
        if v is None or (isinstance(v, int) and (v != d or not (0 <= v < WORD))):
            H.assume(False)
        if isinstance(v, str):
            try:
                int(v)
                H.assume(False)
            except ValueError:
                pass
            if v == '':
                H.assume(False)
    return v, d


def den_of(H, r, operands):
    """denotation of a returned operand (generic): an int denotes itself, a name denotes the value
    of the operand with that name"""
    if H.symbolic:
        e = sym.to_val(r)
        return sym.wrap(z3.If(Val.is_VI(e), Val.iv(e), rho(Val.sv(e))))
    if isinstance(r, int):
        return r
    for v, d in operands:
        if v == r:
            return d
    return None


class ApplyTransform(Case):
    prop = 'C03'
    tier = 'P'
    functions = (go.apply_transform,)
    assumptions = ("names of stack variables are not decimal numerals (well-formed specification)",
                   "equal names denote equal words, distinct names are independent (rho uninterpreted)")

    def __init__(self, op):
        self.op = op
        self.name = "apply_transform[%s]" % op
        self.arity = ARITY[op]

    def run(self, H):
        op = self.op
        ops = [operand(H, 'in%d' % i) for i in range(self.arity)]
        # two operands with the same name have the same denotation (consistency for native replay)
        if not H.symbolic and self.arity == 2 and isinstance(ops[0][0], str) and ops[0][0] == ops[1][0] \
                and ops[0][1] != ops[1][1]:
            H.assume(False)
        size = H.choice('size_flag', [False, True])
        H.set_global(go, 'size_flag', size)
        instr = {"id": "X_0", "opcode": "00", "disasm": op, "inpt_sk": [v for v, _ in ops], "outpt_sk": ["s(99)"],
                 "gas": 3, "commutative": op in ("AND", "OR", "XOR", "ADD", "MUL", "EQ"), "storage": False}
        out = H.call(go.apply_transform, instr)
        H.check('raises-nothing', out.ok, info=repr(out.exc))
        if not out.ok:
            return
        r = out.value
        H.check('total(never None)', snot(sym.sym_eq(r, None)) if isinstance(r, Sym) else (r is not None))
        if r is None:
            return
        norule = sym.sym_eq(r, -1) if isinstance(r, Sym) else (isinstance(r, int) and r == -1)
        if H.symbolic:
            if H.path.branch(sym.truth(norule).e if isinstance(norule, Sym) else norule):
                return
            dr = den_of(H, r, ops)
            ds = [d for _, d in ops]
            claim = dr == evm(op, *ds)
            alts = []
            if op in ("AND", "OR", "XOR", "NOT"):
                bv = [z3.Int2BV(sym._as_int_expr(d), 256) for d in ds]
                alts.append(z3.Int2BV(sym._as_int_expr(dr), 256) == evm_bv(op, *bv))
            rv = sym.to_val(r)
            H.check('result-is-operand-or-word', sor(sand(Sym(Val.is_VI(rv)) if not z3.is_true(z3.simplify(Val.is_VI(rv))) else True,
                                                          dr >= 0, dr < WORD),
                                                     *[sym.sym_eq(r, v) for v, _ in ops]))
            H.check('identity(%s)' % op, claim, alts=alts)
            if op == 'NOT':
                c = ds[0]
                H.check('size-gate(NOT)', implies(size, cost.push_bytes(dr) <= cost.push_bytes(c) + 1))
        else:
            if norule:
                return
            dr = den_of(H, r, ops)
            H.check('result-is-operand-or-word', dr is not None and 0 <= dr < WORD)
            if dr is None:
                return
            ds = [d for _, d in ops]
            H.check('identity(%s)' % op, dr == evm_py(op, *ds))
            if op == 'NOT':
                H.check('size-gate(NOT)', (not size) or cost.push_bytes(dr) <= cost.push_bytes(ds[0]) + 1)


def stub_get_num_bytes_int(it, val):
    """contract of utils.get_num_bytes_int (proved by case get_num_bytes_int): requires val >= 0,
    ensures result = number of bytes of val, at least 1"""
    it.path.prove('call-pre:get_num_bytes_int(val>=0)', sym.truth(val >= 0) if isinstance(val, Sym) else val >= 0)
    return cost.nbytes(val)


class NumBytes(Case):
    prop = 'C03'
    tier = 'P'
    name = "get_num_bytes_int"
    functions = (utils.get_num_bytes_int, utils.number_encoding_size)

    def run(self, H):
        v = H.int('v', 0, WORD * 256 - 1)
        out = H.call(utils.get_num_bytes_int, v)
        H.check('raises-nothing', out.ok, info=repr(out.exc))
        if out.ok:
            H.check('value=nbytes', out.value == cost.nbytes(v))


class CheckSize(Case):
    """check_size(exp_without, expression): in size mode a folded constant is used only if PUSH val is not
    larger than PUSH v0 ; PUSH v1 ; OP  (bytes from the independent table)"""
    prop = 'C03'
    tier = 'P'
    name = "check_size"
    functions = (go.check_size,)
    stubs = {'sfs_generator.utils.get_num_bytes_int': stub_get_num_bytes_int}

    def run(self, H):
        v0 = H.word('v0')
        v1 = H.word('v1')
        val = H.word('val')
        exp = (v0, v1, "+")
        out = H.call(go.check_size, exp, val)
        H.check('raises-nothing', out.ok, info=repr(out.exc))
        if not out.ok:
            return
        r = out.value
        ok = isinstance(r, tuple) and len(r) == 2
        H.check('returns-pair', ok)
        if not ok:
            return
        flag, e = r
        accepted = sym.truth(flag) if isinstance(flag, Sym) else bool(flag)
        smaller = cost.push_bytes(val) <= cost.push_bytes(v0) + cost.push_bytes(v1) + 1
        H.check('accept-only-if-not-larger', implies(accepted, smaller))
        same = (e is exp) or (isinstance(e, tuple) and len(e) == 3 and e[2] == "+")
        if H.symbolic:
            if H.path.branch(sym.truth(accepted).e if isinstance(accepted, Sym) else accepted):
                H.check('accepted-returns-value', sym.sym_eq(e, val) if not isinstance(e, tuple) else False)
            else:
                H.check('rejected-returns-original', e is exp)
        else:
            if accepted:
                H.check('accepted-returns-value', e == val)
            else:
                H.check('rejected-returns-original', e is exp or e == exp)


def cases(tier='quick'):
    t2, t3 = fold_table()
    cs = []
    for op in FOLD_VOCAB:
        if op in t2:
            cs.append(FoldBinary(op, *t2[op]))
    for op in FOLD3_VOCAB:
        if op in t3:
            cs.append(FoldTernary(op, *t3[op]))
    for op in TRANSFORM_OPS:
        cs.append(ApplyTransform(op))
    cs.append(NumBytes())
    cs.append(CheckSize())
    return cs, dict(fold_table=dict((k, list(v)) for k, v in t2.items()),
                    fold3_table=dict((k, list(v)) for k, v in t3.items()),
                    not_folded=[op for op in FOLD_VOCAB + FOLD3_VOCAB if op not in t2 and op not in t3])


# ---------------------------------------------------------------------------------------------------------------
from pyvc.harness import NativeCase


class RulesOnOff(NativeCase):
    """bounded stand-in for the context rules (apply_cond_transformation, apply_comparation_rules) and the fixpoint drivers:
    for every instantiation of a rule's left-hand side (contracts/blocks.py: rule_shape_blocks) the specification with rules,
    the specification without rules and the block itself evaluate to the same stack/memory/storage on sampled states that
    include 0, 1, 2^160-1, 2^255, 2^256-1; in size mode the specification with rules is not larger"""
    prop = 'C03'
    name = "rules-on=rules-off=exec(bounded)"
    functions = (go.apply_cond_transformation, go.apply_comparation_rules, go.apply_all_comparison, go.apply_all_simp_rules,
                 go.apply_transform_rules, go.replace_var, go.replace_var_userdef, go.update_tstack_userdef, go.compute_binary,
                 go.compute_ternary, go.update_unary_func)
    weight = 80

    def run_native(self, tier):
        from specs import evmexec, speceval
        from . import blocks as corpus, pipeline
        from .common import plain_names, cleanup_tmp
        shapes = corpus.rule_shape_blocks(1 if tier == 'quick' else 2) + corpus.shared_rule_shape_blocks()
        n_states = 10 if tier == 'quick' else 30
        n = 0
        for b in shapes:
            toks = corpus.tokens(b)
            items = evmexec.parse_plain(toks)
            depth = utils.compute_stack_size(plain_names(toks))
            specs = {}
            for nm, opts in (('on', dict()), ('off', dict(simplification=False))):
                pipeline.reset_sticky_globals()
                try:
                    spec, sub = spec_of_block(toks, **opts)
                except BaseException as e:
                    specs[nm] = None
                    continue
                specs[nm] = spec[list(spec)[0]] if len(spec) == 1 else None
            for nm, sfs in specs.items():
                if sfs is None:
                    continue
                n += 1
                wfv = speceval.wf_violation(sfs)
                self.ob('specification well formed (producers, arities, commutative flags, acyclic)', wfv is None,
                        inputs=dict(block=b, rules=nm, applied=sfs.get("rules")), info=wfv)
                lins = speceval.linearizations(sfs, limit=20)
                bad = None
                for order in lins[:4]:
                    for stack in evmexec.sample_stacks(depth, n=n_states, seed=3):
                        try:
                            ref = evmexec.run(items, stack, 0)
                        except evmexec.Underflow:
                            continue
                        try:
                            final, st = speceval.evaluate(sfs, order, stack[:len(sfs["src_ws"])], 0)
                        except BaseException as e:
                            bad = "evaluation failed: %r" % (e,)
                            break
                        if final != ref.stack[:len(final)] or len(ref.stack) - len(final) != depth - len(sfs["src_ws"]):
                            bad = "stack %s: specification gives %s, block gives %s" % ([hex(x) for x in stack], [hex(x) for x in final[:3]], [hex(x) for x in ref.stack[:3]])
                            break
                    if bad:
                        break
                self.ob('specification(rules %s) evaluates like the block' % nm, bad is None, inputs=dict(block=b, rules=nm, applied=sfs.get("rules")), info=bad)
        # size clause: a rule is applied only when it does not enlarge the code.  Necessary condition, decided without a search:
        # every implementation of a specification pushes each of its distinct constants at least once and executes each of its
        # other instructions at least once, so  sum(PUSH sizes of distinct constants) + #other instructions  <= size of the block
        from specs import cost
        for b in shapes + SIZE_BLOCKS:
            toks = corpus.tokens(b)
            pipeline.reset_sticky_globals()
            try:
                spec, sub = spec_of_block(toks)
            except BaseException:
                continue
            if len(spec) != 1:
                continue
            sfs = spec[list(spec)[0]]
            consts = set(int(u["value"][0]) for u in sfs["user_instrs"] if u["disasm"] == "PUSH")
            other = [u for u in sfs["user_instrs"] if not u["disasm"].startswith("PUSH")]
            bound = sum(cost.push_bytes(c, push0=True) for c in consts) + len(other)
            size_in = sum(cost.item_bytes(nm, v if nm == 'PUSH' else None, push0=True) for nm, v in evmexec.parse_plain(toks))
            self.ob('size mode: the specification with rules needs no more bytes than the block', bound <= size_in,
                    inputs=dict(block=b, applied=sfs.get("rules")), info="every implementation needs >= %d bytes, the block has %d" % (bound, size_in))
        cleanup_tmp()
        self.assumptions = ("bounded: %d rule-shape blocks x {rules on, rules off}, %d sampled stacks each" % (len(shapes), n_states + 5),)


# blocks in which a folded operand is shared (finding F45)
SIZE_BLOCKS = ["PUSH 8000000000000000000000000000000000000000000000000000000000000000 DUP1 PUSH 1 ADD", "PUSH ffffffff DUP1 MUL",
               "PUSH " + "ff" * 31 + " DUP1 NOT", "PUSH ffffffff DUP1 MUL DUP2 ADD", "PUSH ff DUP1 ADD", "PUSH 10 DUP1 MUL DUP1 ADD"]

_cases_p = cases


def cases(tier='quick'):
    cs, meta = _cases_p(tier)
    cs.append(RulesOnOff())
    return cs, meta
