"""C06 - every model of the Max-SMT encoding decodes to a realizing sequence; the emitted SMT-LIB is well formed.

Step lemmas (per constraint generator, for ALL assignments of the encoding symbols, parameters bs/k/arity enumerated):
    wf_j  and  generator(j, theta, ...)  and  t_j = theta   ==>   step(theta) defined on stack_j,  wf_{j+1},  stack_{j+1} = step(theta, stack_j)
  The generator is the real function, run on concrete structural parameters; its formula object is turned into a z3 formula
  (specs/formula.py) and the implication is decided by z3.  Composition over positions is induction (stated meta-step).
Bounded stand-ins: all models of the full encoding of small specifications, decoded by the tool's own model reader, realize
the specification; the emitted SMT-LIB text is accepted by an independent parser (every symbol declared once with its sort);
the model reader picks the right definition for every variable name.
"""
import io
import contextlib
import itertools
import os
import re
import tempfile

import z3

from pyvc.harness import NativeCase
from specs import formula as F, stackexec
from .common import spec_of_block, utils, plain_names, cleanup_tmp, go
from . import blocks as corpus, pipeline
import smt_encoding.complete_encoding.synthesis_stack_constraints as sc
import smt_encoding.complete_encoding.synthesis_pre_order as po
import smt_encoding.complete_encoding.synthesis_initialize_variables as iv
from smt_encoding.complete_encoding.synthesis_functions import SynthesisFunctions
from smt_encoding.constraints.function import Const, Sort, ExpressionReference
import global_params.paths as paths


class Z3Val(object):
    """lazy valuation: every atom of a formula object becomes a z3 constant of its sort"""

    def __init__(self):
        self.atoms = {}

    def make(self, f, args):
        name = str(f.func)
        if args:
            raise KeyError("function application in a stack constraint")
        if f.type == Sort.boolean:
            return ('B', self.atoms.setdefault(name, F.Sym(z3.Bool(name))))
        return ('I', self.atoms.setdefault(name, F.Sym(z3.Int(name))))

    def b(self, name):
        return self.atoms.setdefault(name, F.Sym(z3.Bool(name))).e

    def i(self, name):
        return self.atoms.setdefault(name, F.Sym(z3.Int(name))).e


def to_z3(formula, val):
    srt, v = F.ev(formula, val)
    assert srt == 'B'
    if isinstance(v, bool):
        return z3.BoolVal(v)
    return v.e


def mk_sf(names):
    t2f = dict((n, Const(n, Sort.integer)) for n in names)
    t2f["empty"] = Const("empty", Sort.integer)
    return SynthesisFunctions(t2f)


def step_spec(kind, val, bs, j, k=None, ins=(), out=None, empty=False, a=None):
    """returns (precondition, [cell equalities at j+1]) over the z3 symbols of position j / j+1.
    A cell is (used?, value).  With empty=True a cell is unused iff its value equals the constant `empty`."""
    E = val.i("empty")

    def used(i, jj):
        return (val.i("x_%d_%d" % (i, jj)) != E) if empty else val.b("u_%d_%d" % (i, jj))

    def x(i, jj):
        return val.i("x_%d_%d" % (i, jj))
    cur = [(used(i, j), x(i, j)) for i in range(bs)]
    nxt = [(used(i, j + 1), x(i, j + 1)) for i in range(bs)]
    F_, T_ = z3.BoolVal(False), z3.BoolVal(True)
    operands = [val.i(o) if isinstance(o, str) else z3.IntVal(o) for o in ins]
    pre = []
    if kind == 'PUSH':
        pre = [z3.Not(cur[bs - 1][0])]
        exp = [(T_, a)] + cur[:bs - 1]
    elif kind == 'DUP':
        pre = [cur[k - 1][0], z3.Not(cur[bs - 1][0])]
        exp = [(T_, cur[k - 1][1])] + cur[:bs - 1]
    elif kind == 'SWAP':
        pre = [cur[k][0]]
        exp = list(cur)
        exp[0], exp[k] = (cur[0][0], cur[k][1]), (cur[k][0], cur[0][1])
    elif kind == 'POP':
        pre = [cur[0][0]] + ([cur[0][1] == operands[0]] if operands else [])
        exp = cur[1:] + [(F_, None)]
    elif kind == 'NOP':
        exp = list(cur)
    elif kind == 'F':        # n operands in order, one result (or none: store)
        n = len(operands)
        pre = [z3.And(cur[i][0], cur[i][1] == operands[i]) for i in range(n)]
        rest = cur[n:]
        if out is not None:
            if n == 0:
                pre.append(z3.Not(cur[bs - 1][0]))
            exp = [(T_, val.i(out))] + rest
        else:
            exp = rest
        exp = (exp + [(F_, None)] * bs)[:bs]
    elif kind == 'COMM':
        o0, o1 = operands
        pre = [cur[0][0], cur[1][0], z3.Or(z3.And(cur[0][1] == o0, cur[1][1] == o1), z3.And(cur[0][1] == o1, cur[1][1] == o0))]
        exp = ([(T_, val.i(out))] + cur[2:] + [(F_, None)] * bs)[:bs]
    else:
        raise KeyError(kind)
    eqs = []
    for i in range(bs):
        eu, ex = exp[i]
        eqs.append(nxt[i][0] == eu)
        if ex is not None:
            eqs.append(z3.Implies(eu, nxt[i][1] == ex))
    return pre, eqs


def wf(val, bs, j, empty, names):
    E = val.i("empty")
    cs = []
    for i in range(bs - 1):
        if empty:
            cs.append(z3.Implies(val.i("x_%d_%d" % (i, j)) == E, val.i("x_%d_%d" % (i + 1, j)) == E))
        else:
            cs.append(z3.Implies(val.b("u_%d_%d" % (i + 1, j)), val.b("u_%d_%d" % (i, j))))
    if empty:
        # the constant `empty` differs from every stack variable and from every pushed constant
        for n in names:
            cs.append(val.i(n) != E)
    return cs


class StepLemmas(NativeCase):
    prop = 'C06'
    name = "stack-constraint-generators(step-lemmas)"
    functions = tuple(getattr(sc, n) for n in dir(sc) if n.endswith('_encoding') or n.endswith('_encoding_empty')) + \
        (SynthesisFunctions.u, SynthesisFunctions.x, SynthesisFunctions.t, SynthesisFunctions.a)
    weight = 90

    def prove(self, name, hyps, goal, inp):
        s = z3.Solver()
        s.set('timeout', 20000)
        s.add(*hyps)
        s.add(z3.Not(goal))
        r = s.check()
        if r == z3.unsat:
            self.ob(name, True, inputs=inp)
        elif r == z3.sat:
            m = s.model()
            self.ob(name, False, inputs=inp, info="counter-assignment: " + str(sorted((str(d), str(m[d])) for d in m.decls())[:24]))
        else:
            self.ob(name + '(undecided)', False, inputs=inp, info="solver: unknown")

    def run_native(self, tier):
        BS = range(2, 8) if tier == 'quick' else range(2, 19)
        j, theta = 3, 7
        n_l = 0
        for empty in (False, True):
            sfx = '_empty' if empty else ''
            for bs in BS:
                names = ["o0", "o1", "o2", "r"]
                # ---- generators without operands
                cfgs = [('PUSH', 'push_basic_encoding', {}), ('POP', 'pop_encoding', {}), ('NOP', 'nop_encoding', {})]
                cfgs += [('DUP', 'dupk_encoding', dict(k=k)) for k in range(1, min(bs, 17))]
                cfgs += [('SWAP', 'swapk_encoding', dict(k=k)) for k in range(1, min(bs, 17))]
                for kind, fn, kw in cfgs:
                    sf = mk_sf(names)
                    val = Z3Val()
                    hard = getattr(sc, fn + sfx)(j, theta, sf, bs, **kw)
                    fz = to_z3(hard.formula, val)
                    a = val.i("a_%d" % j) if kind == 'PUSH' else None
                    pre, eqs = step_spec(kind, val, bs, j, k=kw.get('k'), empty=empty, a=a)
                    hyps = [fz, val.i("t_%d" % j) == theta] + wf(val, bs, j, empty, names)
                    if kind == 'PUSH' and empty:
                        hyps.append(z3.Implies(z3.And(a >= 0, a < 2 ** 256), a != val.i("empty")))
                    inp = dict(generator=fn + sfx, bs=bs, **kw)
                    n_l += 1
                    self.prove('%s: step defined (no underflow, no overflow)' % (kind + sfx), hyps, z3.And(*pre) if pre else z3.BoolVal(True), inp)
                    self.prove('%s: next stack = step(current stack)' % (kind + sfx), hyps, z3.And(*eqs), inp)
                    self.prove('%s: next stack well formed' % (kind + sfx), hyps, z3.And(*wf(val, bs, j + 1, empty, [])) if bs > 1 else z3.BoolVal(True), inp)
                # ---- uninterpreted instructions
                for n in range(0, min(4, bs + 1)):
                    sf = mk_sf(names)
                    val = Z3Val()
                    o = ["o%d" % i for i in range(n)]
                    hard = getattr(sc, 'non_comm_function_encoding' + sfx)(j, theta, sf, bs, o, "r")
                    fz = to_z3(hard.formula, val)
                    pre, eqs = step_spec('F', val, bs, j, ins=o, out="r", empty=empty)
                    hyps = [fz, val.i("t_%d" % j) == theta] + wf(val, bs, j, empty, names)
                    inp = dict(generator='non_comm_function_encoding' + sfx, bs=bs, arity=n)
                    n_l += 1
                    self.prove('F%d%s: step defined' % (n, sfx), hyps, z3.And(*pre) if pre else z3.BoolVal(True), inp)
                    self.prove('F%d%s: next stack = step(current stack)' % (n, sfx), hyps, z3.And(*eqs), inp)
                    self.prove('F%d%s: next stack well formed' % (n, sfx), hyps, z3.And(*wf(val, bs, j + 1, empty, [])), inp)
                if bs >= 2:
                    for (kind, fn, kw, spec_kw) in (('COMM', 'comm_function_encoding', dict(o0="o0", o1="o1", r="r"), dict(ins=["o0", "o1"], out="r")),
                                                    ('F', 'store_stack_function_encoding', dict(o0="o0", o1="o1"), dict(ins=["o0", "o1"], out=None)),
                                                    ('POP', 'pop_uninterpreted_encoding', dict(o0="o0"), dict(ins=["o0"]))):
                        sf = mk_sf(names)
                        val = Z3Val()
                        hard = getattr(sc, fn + sfx)(j, theta, sf, bs, **kw)
                        fz = to_z3(hard.formula, val)
                        pre, eqs = step_spec(kind, val, bs, j, empty=empty, **spec_kw)
                        hyps = [fz, val.i("t_%d" % j) == theta] + wf(val, bs, j, empty, names)
                        inp = dict(generator=fn + sfx, bs=bs)
                        n_l += 1
                        self.prove('%s: step defined' % (fn + sfx), hyps, z3.And(*pre), inp)
                        self.prove('%s: next stack = step(current stack)' % (fn + sfx), hyps, z3.And(*eqs), inp)
                        self.prove('%s: next stack well formed' % (fn + sfx), hyps, z3.And(*wf(val, bs, j + 1, empty, [])), inp)
        self.assumptions = ("parameter-bounded: stack bound bs in %s, every DUP/SWAP depth below bs (<= 16), arities 0..3; all assignments of the symbols decided by z3" % (list(BS)[0:1] + ['..'] + list(BS)[-1:]),
                            "composition of the step lemmas over positions idx0..idx0+b0 is induction on the position (meta-step)",
                            "%d generator instances" % n_l)


# ---------------------------------------------------------------------------------------------------------------
OPTSETS = [[], ['-empty'], ['-memory-encoding', 'l_vars'], ['-order-bounds'], ['-term-encoding', 'stack_vars'], ['-at-most', '-pushed-once'],
           ['-no-output-before-pop'], ['-order-conflicts'], ['-pop-uninterpreted'], ['-empty', '-order-bounds', '-memory-encoding', 'direct'],
           ['-term-encoding', 'uninterpreted_uf'], ['-term-encoding', 'uninterpreted_int']]

def pairwise_optsets(seed=5):
    """option sets of the hard-constraint options such that every pair of values of two different options occurs in some set
    (greedy covering array, deterministic).  -push-basic is left out: its encodings are a known, unexercised problem (DESIGN 9.3)"""
    import itertools
    import random
    dims = [('-memory-encoding', ['direct', 'l_vars']), ('-pop-uninterpreted', [0, 1]), ('-order-bounds', [0, 1]), ('-empty', [0, 1]),
            ('-term-encoding', ['uninterpreted_uf', 'int', 'stack_vars', 'uninterpreted_int']), ('-at-most', [0, 1]), ('-pushed-once', [0, 1]),
            ('-no-output-before-pop', [0, 1]), ('-order-conflicts', [0, 1])]
    pairs = set()
    for (i, (_, va)), (j, (_, vb)) in itertools.combinations(enumerate(dims), 2):
        pairs |= set((i, x, j, y) for x in va for y in vb)
    rnd = random.Random(seed)
    rows = []
    while pairs:
        best = None
        for _ in range(300):
            row = [rnd.choice(v) for _, v in dims]
            cov = sum(1 for (i, x, j, y) in pairs if row[i] == x and row[j] == y)
            if best is None or cov > best[0]:
                best = (cov, row)
        rows.append(best[1])
        pairs = set(p for p in pairs if not (best[1][p[0]] == p[1] and best[1][p[2]] == p[3]))
    out = []
    for row in rows:
        o = []
        for (name, vals), v in zip(dims, row):
            if v in (0, 1):
                o += [name] if v else []
            elif v != vals[0]:
                o += [name, v]
        if o not in out and o not in OPTSETS:
            out.append(o)
    return out


PAIRWISE = pairwise_optsets()
# blocks on which the pairwise option sets are run in the quick tier: stores before value producers, pops, loads, plain arithmetic
PAIRWISE_BLOCKS = ["SSTORE PUSH 1 DUP1", "PUSH 1 SWAP1 SSTORE", "MSTORE PUSH 1 DUP1 ADD", "SWAP1 POP PUSH 0 MSTORE8", "DUP2 DUP2 SSTORE SLOAD", "POP POP",
                   "DUP2 ADD", "SLOAD SWAP2 SSTORE", "DUP1 MLOAD SWAP1 POP", "PUSH 0 ADD"]

SMALL_BLOCKS = ["PUSH 0 ADD", "PUSH 1 MUL", "DUP1 POP", "SWAP2 SWAP1 SWAP3 SSTORE SSTORE", "SWAP2 SWAP1 SWAP3 MSTORE MSTORE", "DUP2 ADD", "DUP2 MUL SWAP1 POP", "SLOAD SWAP2 SSTORE", "MLOAD SWAP2 MSTORE", "SUB", "SWAP1 SUB", "DUP1 MLOAD SWAP1 POP",
                "PUSH 1 ADD", "POP POP", "DUP2 DUP2 SSTORE SLOAD", "DUP2 DUP2 MSTORE MLOAD ADD", "SWAP1 DUP2 SSTORE PUSH 7 SWAP1 SSTORE",
                "PUSH 0 SLOAD PUSH 1 ADD PUSH 0 SSTORE", "DUP1 DUP1 ADD ADD", "CALLER DUP1 AND", "SWAP2 SWAP1 SUB MUL", "PUSH 0 MLOAD PUSH 20 MSTORE",
                "DUP1 SLOAD DUP2 SSTORE POP", "SWAP1 POP DUP1 ISZERO", "SWAP1 POP PUSH 0 MSTORE8", "MSTORE8 POP", "DUP2 SWAP1 MSTORE8 POP",
                "SWAP1 POP PUSH 0 MSTORE", "SWAP1 POP PUSH 0 SSTORE"]


def build_optimizer(sfs, opts):
    from smt_encoding.block_optimizer import BlockOptimizer
    import gasol_asm
    params = pipeline.make_params(['x.json', '-solver', 'z3'] + list(opts))
    d = tempfile.mkdtemp(prefix='gasol-enc-')
    paths.smt_encoding_path = d
    with contextlib.redirect_stdout(io.StringIO()):
        bo = BlockOptimizer("blk", sfs, params, 10)
    return bo, params, d


def smt2_text(bo):
    return '\n'.join(bo._solver.to_smt2())


class ModelsRealize(NativeCase):
    prop = 'C06'
    name = "all-models-of-small-encodings-decode-to-realizing-sequences(bounded)"
    weight = 100

    def run_native(self, tier):
        import copy
        import shutil
        from smt_encoding.block_optimizer import BlockOptimizer
        self.functions = (BlockOptimizer._rebuild_block_from_solver, BlockOptimizer._initialize_solver)
        cap = 60 if tier == 'quick' else 400
        optsets = OPTSETS[:8] if tier == 'quick' else OPTSETS
        n_models = n_enc = complete = 0
        no_model = []
        front_end_failed = []
        extra = [b for b in PAIRWISE_BLOCKS if b not in SMALL_BLOCKS]
        for b in SMALL_BLOCKS + extra:
            toks = corpus.tokens(b)
            specs = {}
            for opts in optsets + (PAIRWISE if (tier != 'quick' or b in PAIRWISE_BLOCKS) else []):
                # the specification is produced by the front end under the same options, as the tool does
                # (-pop-uninterpreted and -push-basic change the instructions a specification names)
                fe = ('-pop-uninterpreted' in opts, '-push-basic' not in opts)
                if fe not in specs:
                    pipeline.reset_sticky_globals()
                    try:
                        specs[fe] = spec_of_block(toks, pop=fe[0], push=fe[1])[0]
                    except BaseException as e:
                        specs[fe] = None
                        front_end_failed.append((b, opts))
                spec = specs[fe]
                if spec is None:
                    continue
                for key in spec:
                    base = spec[key]
                    if base["init_progr_len"] > 6 or base["init_progr_len"] == 0:
                        continue
                    sfs = copy.deepcopy(base)
                    inp = dict(block=b, options=opts)
                    try:
                        bo, params, d = build_optimizer(sfs, opts)
                        text = smt2_text(bo)
                    except BaseException as e:
                        self.ob('encoding-is-generated', False, inputs=inp, info=repr(e))
                        continue
                    n_enc += 1
                    # independent parser: every symbol declared exactly once with the sort it is used at
                    try:
                        o = z3.Optimize()
                        o.from_string(text.replace("(get-objectives)", "").replace("(get-model)", "").replace("(check-sat)", ""))
                        hard = list(o.assertions())
                        self.ob('emitted SMT-LIB accepted by an independent parser', True, inputs=inp)
                    except z3.Z3Exception as e:
                        self.ob('emitted SMT-LIB accepted by an independent parser', False, inputs=inp, info=str(e)[:300])
                        shutil.rmtree(d, ignore_errors=True)
                        continue
                    decls = re.findall(r"\(declare-fun (\S+) ", text)
                    self.ob('every symbol declared once', len(decls) == len(set(decls)), inputs=inp,
                            info=[x for x in set(decls) if decls.count(x) > 1][:5])
                    s = z3.Solver()
                    s.set('timeout', 20000)
                    s.add(*hard)
                    b0 = sfs["init_progr_len"]
                    tvars = None
                    k = 0
                    finished = False
                    while k < cap:
                        r = s.check()
                        if r != z3.sat:
                            finished = (r == z3.unsat)
                            break
                        m = s.model()
                        k += 1
                        n_models += 1
                        bo._solver._model = "sat\n" + m.sexpr()
                        try:
                            ids = bo._rebuild_block_from_solver()
                        except BaseException as e:
                            self.ob('model decodes', False, inputs=dict(inp, model=m.sexpr()[:400]), info=repr(e))
                            break
                        # PUSH basic carries its operand in a_j
                        ids2 = []
                        for pos, i in enumerate(ids):
                            if i == 'PUSH':
                                aj = [dd for dd in m.decls() if dd.name() == 'a_%d' % pos]
                                ids2.append("PUSH 0x%x" % (m[aj[0]].as_long() if aj else 0))
                            else:
                                ids2.append(i)
                        why = stackexec.realizes(base, ids2)
                        self.ob('every model decodes to a sequence that realizes the specification', why is None,
                                inputs=dict(inp, ids=ids2), info=why)
                        ts = [dd for dd in m.decls() if re.fullmatch(r"t_\d+", dd.name())]
                        s.add(z3.Or(*[dd() != m[dd] for dd in ts]))
                    if finished:
                        complete += 1
                    if k == 0:
                        no_model.append(inp)      # satisfiability of the hard constraints is C07's clause; here it only measures vacuity
                    shutil.rmtree(d, ignore_errors=True)
        # vacuity guard: the clause "every model decodes ..." must have been exercised on most encodings
        self.ob('model enumeration is not vacuous (at least 9 of 10 encodings have a model)', n_enc > 0 and len(no_model) * 10 <= n_enc,
                inputs=dict(encodings=n_enc, without_model=no_model[:5]))
        self.assumptions = ("bounded: %d encodings (blocks with init_progr_len <= 6 x %d option sets, plus %d option sets that cover every pair of values of "
                            "two hard-constraint options - -push-basic excluded - on %s), %d models enumerated (cap %d per encoding; "
                            "%d encodings enumerated completely), z3 python API as the solver"
                            % (n_enc, len(optsets), len(PAIRWISE), "%d blocks" % len(PAIRWISE_BLOCKS) if tier == 'quick' else "all blocks", n_models, cap, complete),
                            "%d (block, option set) pairs for which the front end itself fails under the option (e.g. -pop-uninterpreted on "
                            "blocks with POP: KeyError in the position bounds, contained by the drivers) and %d encodings without any model are "
                            "not counted: satisfiability is decided under C07" % (len(front_end_failed), len(no_model)))
        cleanup_tmp()


class ModelReader(NativeCase):
    prop = 'C06'
    name = "model-reader(get_value)"

    def run_native(self, tier):
        from smt_encoding.solver.z3_executable import Z3Executable
        from smt_encoding.solver.oms_executable import OMSExecutable
        self.functions = (Z3Executable.get_value_pattern, OMSExecutable.get_value_pattern)
        import random
        rnd = random.Random(1)
        names = ["t_%d" % i for i in range(0, 24)] + ["theta_%d" % i for i in range(0, 24)] + ["x_1_1", "x_1_10", "x_11_1", "a_1", "a_10", "l_1", "l_12"]
        vals = dict((n, rnd.randrange(0, 40)) for n in names)
        orders = [sorted(names), sorted(names, reverse=True)] + [rnd.sample(names, len(names)) for _ in range(6)]
        for order in orders:
            text = "sat\n(\n" + "\n".join("  (define-fun %s () Int\n    %d)" % (n, vals[n]) for n in order) + "\n)\n"
            sv = Z3Executable("/tmp/none.smt2")
            sv._model = text
            for n in names:
                try:
                    got = sv.get_value(n)
                except BaseException as e:
                    got = repr(e)
                if got != str(vals[n]):
                    self.ob('z3 dialect: value of each variable is its own definition', False, inputs=dict(variable=n, order=order[:6]),
                            info="got %r, defined as %d" % (got, vals[n]))
        self.ob('z3 dialect: value of each variable is its own definition', True, inputs=dict(orders=len(orders), variables=len(names)))
        self.assumptions = ("bounded: %d variable names (prefix-related ones included) x %d definition orders" % (len(names), len(orders)),)


def cases(tier='quick'):
    return [StepLemmas(), ModelsRealize(), ModelReader()], {}
