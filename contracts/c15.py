"""C15 - parsing and serialization round-trip.

P : one assembly item:  to_json(build_asm_bytecode(d)) = d  for every field value and every optional-field combination, both
    PUSH0 settings (a zero PUSH is spelled PUSH0 under the flag: the documented exception), PUSHLIB through real_value.
B : block partition (no item dropped / duplicated / reordered), whole documents (synthetic + shipped examples), plain text
    (parse_plain(to_plain(B)) = B, constant spellings keep their numeric value).
"""
import glob
import itertools
import json
import os

import z3

from pyvc import sym
from pyvc.sym import Sym, sand, sor, snot, implies
from pyvc.harness import Case, NativeCase
from .common import asm_bytecode, constants, REPO
from . import docs, blocks as corpus, pipeline
import sfs_generator.parser_asm as parser_asm

AsmBytecode = asm_bytecode.AsmBytecode
NAMES = ["PUSH", "PUSH0", "ADD", "PUSH [tag]", "PUSH data", "PUSHIMMUTABLE", "ASSIGNIMMUTABLE", "JUMP", "tag", "PUSHLIB", "PUSHSIZE",
         "PUSH #[$]", "PUSH [$]", "PUSHDEPLOYADDRESS", "JUMPDEST"]


def _eq(a, b):
    return sym.sym_eq(a, b) if (isinstance(a, Sym) or isinstance(b, Sym)) else (a == b)


class ItemRoundTrip(Case):
    prop = 'C15'
    tier = 'P'
    functions = (parser_asm.build_asm_bytecode, AsmBytecode.to_json, AsmBytecode.__init__)

    def __init__(self, nm):
        self.nm = nm
        self.name = "item-round-trip[%s]" % nm

    def run(self, H):
        p0 = H.bool('p0')
        H.set_global(constants, 'push0_enabled', p0)
        nm = self.nm
        d = {"begin": H.int('begin'), "end": H.int('end'), "name": nm, "source": H.int('source')}
        has_value = H.choice('has_value', [True, False]) if nm != 'PUSHLIB' else True
        v = None
        if has_value:
            v = H.str('value') if nm != 'PUSHLIB' else "lib_address_1"
            d["value"] = v
        if H.choice('has_jumpType', [False, True]):
            d["jumpType"] = H.str('jumpType')
        if H.choice('has_modifierDepth', [False, True]):
            d["modifierDepth"] = H.int('modifierDepth')
        pl = {"other_lib": 0} if H.choice('pushlib_map_nonempty', [False, True]) else {}
        out = H.call(parser_asm.build_asm_bytecode, dict(d), pl)
        H.check('parse:raises-nothing', out.ok, info=repr(out.exc))
        if not out.ok:
            return
        o2 = H.call(AsmBytecode.to_json, out.value)
        H.check('serialize:raises-nothing', o2.ok, info=repr(o2.exc))
        if not o2.ok:
            return
        j = o2.value
        zero_push = sand(p0, nm == "PUSH", (_eq(v, "0") if has_value else False))
        if H.symbolic:
            is_zero = H.path.branch(sym.lift(zero_push)) if isinstance(zero_push, Sym) else bool(zero_push)
        else:
            is_zero = bool(zero_push)
        exp = dict(d)
        if is_zero:
            exp["name"] = "PUSH0"
            del exp["value"]
        H.check('same-key-set', set(j.keys()) == set(exp.keys()), info="%r vs %r" % (sorted(j), sorted(exp)))
        if set(j.keys()) != set(exp.keys()):
            return
        H.check('same-field-values', sand(*[_eq(j[k], exp[k]) for k in exp]))


TOKENS = ["tag", "JUMPDEST", "ADD", "PUSH", "PUSH [tag]", "JUMP", "JUMPI", "STOP", "RETURN", "REVERT", "INVALID", "PUSHLIB", "SSTORE", "LOG1"]


class BlockPartition(NativeCase):
    """build_blocks_from_asm_representation: the blocks, concatenated, are exactly the parsed items in order; no block is empty"""
    prop = 'C15'
    name = "build_blocks_from_asm_representation(partition)"
    functions = (parser_asm.build_blocks_from_asm_representation,)

    def run_native(self, tier):
        L = 4 if tier == 'quick' else 5
        n = 0
        for k in range(0, L + 1):
            for seq in itertools.product(TOKENS, repeat=k):
                lst = []
                for i, nm in enumerate(seq):
                    it = {"begin": i, "end": i + 1, "name": nm, "source": 0}
                    if nm in ("tag", "PUSH", "PUSH [tag]", "PUSHLIB"):
                        it["value"] = str(i + 1) if nm != "PUSHLIB" else "lib%d" % (i % 2)
                    if nm == "JUMP":
                        it["jumpType"] = "[in]"
                    lst.append(it)
                n += 1
                try:
                    bl = parser_asm.build_blocks_from_asm_representation("c", "c", [dict(x) for x in lst], False)
                except BaseException as e:
                    self.ob('raises-nothing', False, inputs=dict(items=list(seq)), info=repr(e))
                    continue
                flat = [ins.to_json() for b in bl for ins in b.instructions]
                exp = []
                for x in lst:
                    y = dict(x)
                    if constants.push0_enabled and y["name"] == "PUSH" and y.get("value") == "0":
                        y = {k_: v for k_, v in y.items() if k_ != "value"}
                        y["name"] = "PUSH0"
                    exp.append(y)
                if flat != exp:
                    self.ob('concatenation-of-blocks=items-in-order', False, inputs=dict(items=list(seq)), info=flat)
                if any(len(b.instructions) == 0 for b in bl):
                    self.ob('no-empty-block', False, inputs=dict(items=list(seq)))
        self.ob('concatenation-of-blocks=items-in-order', True, inputs=dict(sequences=n))
        self.ob('no-empty-block', True, inputs=dict(sequences=n))
        self.assumptions = ("bounded: all %d item-name sequences of length <= %d over %d names" % (n, L, len(TOKENS)),)


def special_documents():
    out = []
    base = docs.document([corpus.tokens("PUSH 0 PUSH 5 ADD PUSH 7 MSTORE")], [corpus.tokens("SWAP1 SWAP1 PUSH 1 ADD")])
    out.append(('basic', base))
    d = docs.document([corpus.tokens("PUSH 1 POP")], [corpus.tokens("ADD")], with_noasm=False, with_source_list=False)
    out.append(('no-sourceList', d))
    # pseudo pushes, immutables, library references, nested .data and data addresses
    code = [docs.item("PUSHLIB", "contracts/Lib.sol:Lib"), docs.item("PUSHLIB", "contracts/Other.sol:Other"),
            docs.item("PUSHLIB", "contracts/Lib.sol:Lib"), docs.item("PUSHIMMUTABLE", "1234"),
            docs.item("PUSH", "40"), docs.item("ASSIGNIMMUTABLE", "1234"), docs.item("PUSH #[$]", "0000000000000000000000000000000000000000000000000000000000000000"),
            docs.item("PUSH [$]", "0000000000000000000000000000000000000000000000000000000000000000"), docs.item("PUSHSIZE"),
            docs.item("PUSHDEPLOYADDRESS"), docs.item("PUSH data", "A6885B3731702DA62E8E4A8F584AC46A7F6822F4E2BA50FBA902F67B1588D23B"),
            docs.item("PUSH", "0"), docs.item("PUSH", "00"), docs.item("PUSH", "FF"), docs.item("PUSH [tag]", "3"),
            docs.item("JUMP", None, jumpType="[out]", modifierDepth=1), docs.item("tag", "3"), docs.item("JUMPDEST", modifierDepth=2),
            docs.item("STOP")]
    nested = {".code": code, ".data": {"0": {".auxdata": "a2646970667358", ".code": [docs.item("INVALID")],
                                              ".data": {"A6885B37": "deadbeef", "1": {".code": [docs.item("STOP")]}}},
                                        "A6885B3731702DA62E8E4A8F584AC46A7F6822F4E2BA50FBA902F67B1588D23B": "636f6e7374"},
              "sourceList": ["a.sol"]}
    d = {"contracts": {"a.sol:A": {"asm": nested}, "a.sol:I": {"asm": None}, "a.sol:Z": {"asm": {".code": [docs.item("STOP")], ".data": {}}}},
         "version": "0.8.17"}
    out.append(('pseudo-pushes,nested-data,no-asm', d))
    return out


def roundtrip(doc):
    import tempfile
    fd, fn = tempfile.mkstemp(suffix='.json_solc')
    os.write(fd, json.dumps(doc).encode())
    os.close(fd)
    try:
        return parser_asm.parse_asm(fn).to_json()
    finally:
        os.remove(fn)


def normalize_push0(doc, p0):
    """the documented exception: under the flag a zero PUSH is spelled PUSH0"""
    if not p0:
        return doc

    def fix_code(code):
        out = []
        for it in code:
            if it.get("name") == "PUSH" and it.get("value") == "0":
                it = {k: v for k, v in it.items() if k != "value"}
                it["name"] = "PUSH0"
            out.append(it)
        return out

    def fix_asm(a):
        if not isinstance(a, dict):
            return a
        a = dict(a)
        if ".code" in a:
            a[".code"] = fix_code(a[".code"])
        if ".data" in a and isinstance(a[".data"], dict):
            nd = {}
            for k, v in a[".data"].items():
                if isinstance(v, dict) and ".code" in v:
                    v = dict(v)
                    v[".code"] = fix_code(v[".code"])      # nested .data is carried opaquely by the tool
                nd[k] = v
            a[".data"] = nd
        return a
    d = json.loads(json.dumps(doc))
    for c in d["contracts"]:
        if isinstance(d["contracts"][c], dict) and d["contracts"][c].get("asm") is not None:
            d["contracts"][c]["asm"] = fix_asm(d["contracts"][c]["asm"])
    return d


def diff_json(a, b, path=""):
    if type(a) != type(b):
        return "%s: %r vs %r" % (path, a if not isinstance(a, (dict, list)) else type(a).__name__, b if not isinstance(b, (dict, list)) else type(b).__name__)
    if isinstance(a, dict):
        for k in set(a) | set(b):
            if k not in a or k not in b:
                return "%s: key %r only on one side" % (path, k)
            r = diff_json(a[k], b[k], path + "/" + str(k))
            if r:
                return r
        return None
    if isinstance(a, list):
        if len(a) != len(b):
            return "%s: lengths %d vs %d" % (path, len(a), len(b))
        for i, (x, y) in enumerate(zip(a, b)):
            r = diff_json(x, y, "%s[%d]" % (path, i))
            if r:
                return r
        return None
    return None if a == b else "%s: %r vs %r" % (path, a, b)


class DocumentRoundTrip(NativeCase):
    prop = 'C15'
    name = "document-round-trip"
    functions = (parser_asm.parse_asm, parser_asm.build_asm_contract, parser_asm.build_blocks_from_asm_representation)
    weight = 40

    def run_native(self, tier):
        from sfs_generator.asm_contract import AsmContract
        from sfs_generator.asm_json import AsmJSON
        self.functions = self.functions + (AsmContract.to_asm_json, AsmContract.to_json, AsmJSON.to_json)
        ds = special_documents()
        files = sorted(glob.glob(os.path.join(REPO, 'examples', 'jsons-solc', '*.json_solc')))
        files = files[:3] if tier == 'quick' else files
        for fn in files:
            with open(fn) as f:
                ds.append((os.path.basename(fn), json.load(f)))
        for p0 in (True, False):
            constants._set_push0(p0)
            for nm, d in ds:
                try:
                    back = roundtrip(d)
                except BaseException as e:
                    self.ob('parse+serialize-raises-nothing', False, inputs=dict(doc=nm, push0=p0), info=repr(e))
                    continue
                df = diff_json(normalize_push0(d, p0), back)
                self.ob('to_json(parse(D))=D (modulo PUSH0 spelling)', df is None, inputs=dict(doc=nm, push0=p0), info=df)
        constants._set_push0(True)
        self.assumptions = ("bounded: %d documents (3 synthetic with pseudo-pushes / nested data / contracts without asm, %d shipped examples) x 2 flag values"
                            % (len(ds), len(files)),)


SPELLINGS = [("PUSH1 0x05", 5), ("PUSH1 5", 5), ("PUSH1 0x5", 5), ("PUSH 5", 5), ("PUSH 05", 5), ("PUSH1 0x0005", 5), ("PUSH2 0x0100", 256),
             ("PUSH2 256", 256), ("PUSH 100", 256), ("PUSH1 16", 16), ("PUSH 10", 16), ("PUSH1 0x10", 16), ("PUSH1 10", 10), ("PUSH a", 10),
             ("PUSH1 0x0a", 10), ("PUSH1 0xA", 10), ("PUSH 0A", 10), ("PUSH0", 0), ("PUSH1 0x00", 0), ("PUSH1 0", 0), ("PUSH 0", 0),
             ("PUSH32 0xffffffffffffffffffffffffffffffffffffffffffffffffffffffffffffffff", 2 ** 256 - 1),
             ("PUSH32 115792089237316195423570985008687907853269984665640564039457584007913129639935", 2 ** 256 - 1),
             ("PUSH20 0x00000000000000000000000000000000000000ff", 255), ("PUSH1 0x99", 0x99), ("PUSH1 99", 99), ("PUSH 99", 0x99),
             ("PUSH1 032", 32), ("PUSH1 007", 7), ("PUSH4 0000001000", 1000), ("PUSH1 00", 0), ("PUSH2 0x0020", 32), ("PUSH 0020", 32),
             ("PUSH1 010", 10), ("PUSH1 0x010", 16)]


class PlainText(NativeCase):
    prop = 'C15'
    name = "plain-text-round-trip"
    functions = (parser_asm.plain_instructions_to_asm_representation, parser_asm.parse_blocks_from_plain_instructions,
                 AsmBytecode.to_plain, AsmBytecode.to_plain_with_byte_number)

    def value_of(self, block):
        it = block.instructions[0]
        if it.disasm == 'PUSH0':
            return 0
        return int(it.value, 16)

    def run_native(self, tier):
        for p0 in (True, False):
            constants._set_push0(p0)
            for text, val in SPELLINGS:
                try:
                    b = parser_asm.parse_blocks_from_plain_instructions(text + " POP")[0]
                    got = self.value_of(b)
                except BaseException as e:
                    self.ob('spelling:raises-nothing', False, inputs=dict(text=text, push0=p0), info=repr(e))
                    continue
                self.ob('constant-keeps-its-numeric-value', got == val, inputs=dict(text=text, push0=p0), info="parsed as %d" % got)
            # every spelling of one constant is the same item (so that rendering and re-reading cannot turn one into another)
            for group in (["PUSH1 0x00", "PUSH1 0x0", "PUSH1 0", "PUSH 0", "PUSH0", "PUSH2 0x0000", "PUSH32 0x" + "0" * 64],
                          ["PUSH1 0x10", "PUSH1 16", "PUSH 10", "PUSH2 0x0010", "PUSH1 0X10"], ["PUSH2 0x0100", "PUSH2 256", "PUSH 100", "PUSH3 0x000100"]):
                seen = {}
                for text in group:
                    try:
                        it = parser_asm.parse_blocks_from_plain_instructions(text + " POP")[0].instructions[0]
                        seen[text] = (it.disasm, it.value)
                    except BaseException as e:
                        seen[text] = repr(e)
                self.ob('every spelling of a constant gives the same item', len(set(seen.values())) == 1, inputs=dict(spellings=group, push0=p0),
                        info=seen)
            blocks = [pipeline.plain_text(corpus.tokens(b)) for b in corpus.BASE_BLOCKS] + \
                     ["PUSH [tag] 5 JUMP", "PUSH1 0x01 PUSH [tag] 2 JUMPI", "PUSHSIZE PUSHDEPLOYADDRESS ADD", "PUSH data 0a POP",
                      "PUSHIMMUTABLE 12 PUSH1 0x00 ASSIGNIMMUTABLE 12", "PUSH #[$] 00 PUSH [$] 00 ADD", "PUSHLIB lib1 PUSHLIB lib2 PUSHLIB lib1 ADD ADD",
                      "tag 3 JUMPDEST PUSH1 0x00 DUP1 REVERT", "PUSH [tag] 5 JUMP [in]", "JUMP [out]", "PUSH1 0x01 PUSH [tag] 2 JUMPI"]
            for text in blocks:
                try:
                    b1 = parser_asm.parse_blocks_from_plain_instructions(text)
                    t1 = ' '.join(b.to_plain_with_byte_number() for b in b1)
                    b2 = parser_asm.parse_blocks_from_plain_instructions(t1)
                    t2 = ' '.join(b.to_plain_with_byte_number() for b in b2)
                except BaseException as e:
                    self.ob('block:raises-nothing', False, inputs=dict(text=text, push0=p0), info=repr(e))
                    continue
                same = len(b1) == len(b2) and all(len(x.instructions) == len(y.instructions) and
                                                  all((i.disasm, i.value, i.jump_type) == (j.disasm, j.value, j.jump_type)
                                                      for i, j in zip(x.instructions, y.instructions)) for x, y in zip(b1, b2))
                self.ob('parse_plain(to_plain(B))=B', same and t1 == t2, inputs=dict(text=text, push0=p0), info=dict(t1=t1, t2=t2))
                # the other rendering (AsmBytecode.to_plain: hex operand without prefix), tags included
                try:
                    t3 = ' '.join(i.to_plain() for b in b1 for i in b.instructions)
                    b3 = parser_asm.parse_blocks_from_plain_instructions(t3)
                    key = lambda i: ('PUSH', 0) if i.disasm == 'PUSH0' else (i.disasm, int(i.value, 16) if i.disasm == 'PUSH' else i.value)     # constants keep their numeric value; PUSH0 = PUSH 0
                    same3 = [key(i) for b in b1 for i in b.instructions] == [key(i) for b in b3 for i in b.instructions]
                    self.ob('parse_plain(to_plain(B))=B [to_plain rendering]', same3, inputs=dict(text=text, push0=p0), info=dict(rendering=t3))
                except BaseException as e:
                    self.ob('parse_plain(to_plain(B))=B [to_plain rendering]', False, inputs=dict(text=text, push0=p0), info=repr(e))
        constants._set_push0(True)
        self.assumptions = ("bounded: %d constant spellings, %d blocks, 2 flag values" % (len(SPELLINGS), len(blocks)),)


def cases(tier='quick'):
    return [ItemRoundTrip(n) for n in NAMES] + [BlockPartition(), DocumentRoundTrip(), PlainText()], {}
