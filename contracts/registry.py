"""Which cases decide which property.  An entry is a module name (all its cases) or (module, predicate on the case name)."""


def only(*subs):
    return lambda c: c if any(s in c.name for s in subs) else None


REGISTRY = {
    'GATES': ['contracts.gates'],
    'C01': ['contracts.c01', ('contracts.gates', only('(gate)'))],
    'C02': ['contracts.c02'],
    'C03': ['contracts.lemmas', 'contracts.c03'],
    'C04': ['contracts.c04'],
    'C05': ['contracts.c05', ('contracts.gates', only('compare_asm_block_asm_format'))],
    'C06': ['contracts.c06'],
    'C07': ['contracts.c07'],
    'C08': ['contracts.c08', ('contracts.gates', only('optimize_asm_block_asm_format(gate)', 'optimize_asm_contract(gate)',
                                                      'optimize_isolated_asm_block(gate)', 'optimize_block(baseline')),
            # the acceptance test measures the candidate against the block built from original_instrs: that text must be the sub block
            ('contracts.c14', only('specification-keys,stack-hand-over,original_instrs'))],
    'C09': ['contracts.c09', ('contracts.gates', only('optimize_asm_contract(gate)', 'optimize_asm_from_log(gate)')),
            # an emitted PUSH holds a word only if the folding kernels return words (their contracts, re-run from C03)
            ('contracts.c03', only('evaluate_expression')), ('contracts.c14', only('rebuild_optimized_asm_block')), 'contracts.c14p'],
    'C10': [('contracts.gates', only('fault-containment', 'compare_asm_block_asm_format', 'optimize_asm_block_asm_format(gate)', 'optimize_asm_from_log')),
            'contracts.c10'],
    'C11': [('contracts.gates', only('optimize_asm_from_log', 'optimize_asm_block_asm_format(gate)', 'compare_asm_block_asm_format',
                                     'optimize_asm_contract(gate)')),
            ('contracts.c17', only('execute_gasol')),      # the replay run must see the same PUSH0 setting as the optimizing run
            ('contracts.c05', only('instruction-classes')),     # what the comparison of a replayed block can see of block-ending ids
            'contracts.c11'],
    'C12': ['contracts.c12'],
    'C13': ['contracts.c13', ('contracts.c12', only('frame('))],     # process independence includes history independence
    'C14': ['contracts.c14', 'contracts.c14p'],
    'C15': ['contracts.c15', 'contracts.c15p'],
    'C17': ['contracts.c17'],
    'C18': ['contracts.c18'],
}
