"""C17 - instruction-set restrictions chosen by the user are honoured (PUSH0 flag, contract selection).

The flag constants.push0_enabled is a ghost parameter p0 of every contract.
"""
import types
import z3

from pyvc import sym, interp
from pyvc.sym import Sym, WORD, ite, sand, sor, snot, implies
from pyvc.harness import Case
from specs import cost
from .common import go, utils, opcodes, asm_bytecode, constants
import sfs_generator.parser_asm as parser_asm
import sfs_generator.asm_json as asm_json_mod
import solution_generation.ids2asm as ids2asm
import gasol_asm

AsmBytecode = asm_bytecode.AsmBytecode


def _b(x):
    return sym.truth(x) if isinstance(x, Sym) else bool(x)


class IsPush0(Case):
    prop = 'C17'
    tier = 'P'
    functions = (asm_bytecode.is_push0,)

    def __init__(self, disasm):
        self.d = disasm
        self.name = "is_push0[%s]" % disasm

    def run(self, H):
        p0 = H.bool('p0')
        H.set_global(constants, 'push0_enabled', p0)
        isnone = H.choice('value_is_none', [False, True])
        v = None if isnone else H.str('value')
        out = H.call(asm_bytecode.is_push0, self.d, v)
        H.check('raises-nothing', out.ok, info=repr(out.exc))
        if out.ok:
            spec = sand(p0, self.d == "PUSH", (sym.sym_eq(v, "0") if v is not None else False))
            H.check('result<=>p0&PUSH&0', sym.sym_eq(_b(out.value), _b(spec)) if H.symbolic else (bool(out.value) == bool(spec)))


ITEM_NAMES = ["PUSH", "PUSH0", "ADD", "PUSH [tag]", "PUSHLIB", "JUMP", "tag", "PUSHIMMUTABLE"]


class BuildAsmBytecode(Case):
    """parser: an item is turned into PUSH0 only under the flag (or if it already was PUSH0); all other fields kept"""
    prop = 'C17'
    tier = 'P'
    functions = (parser_asm.build_asm_bytecode, AsmBytecode.__init__)

    def __init__(self, nm):
        self.nm = nm
        self.name = "build_asm_bytecode[%s]" % nm

    def run(self, H):
        p0 = H.bool('p0')
        H.set_global(constants, 'push0_enabled', p0)
        nm = self.nm
        has_value = H.choice('has_value', [True, False]) if nm not in ('PUSHLIB',) else True
        instr = {"begin": H.int('begin'), "end": H.int('end'), "name": nm, "source": H.int('source')}
        v = None
        if has_value:
            v = H.str('value') if nm != 'PUSHLIB' else "lib_address_1"
            instr["value"] = v
        jt = H.choice('has_jump', [False, True])
        if jt:
            instr["jumpType"] = "[in]"
        out = H.call(parser_asm.build_asm_bytecode, instr, {})
        H.check('raises-nothing', out.ok, info=repr(out.exc))
        if not out.ok:
            return
        b = out.value
        is0 = b.disasm == "PUSH0"
        H.check('PUSH0-only-if-flag-or-input', implies(is0, sor(p0, nm == "PUSH0")))
        if nm == 'PUSH' and has_value:
            H.check('zero-push<=>PUSH0-under-flag', sym.sym_eq(_b(is0), _b(sand(p0, sym.sym_eq(v, "0")))) if H.symbolic
                    else (bool(is0) == bool(p0 and v == "0")))
        else:
            H.check('name-kept', b.disasm == nm)
        H.check('fields-kept', sand(sym.sym_eq(b.begin, instr["begin"]), sym.sym_eq(b.end, instr["end"]),
                                    sym.sym_eq(b.source, instr["source"]), b.jump_type == ("[in]" if jt else None)))
        if nm != 'PUSHLIB' and has_value:
            H.check('real_value-kept', sym.sym_eq(b.real_value, v))


class GeneratePush(Case):
    """front end: a synthesized push is named PUSH0 only under the flag and only for value 0"""
    prop = 'C17'
    tier = 'P'
    name = "generate_push_instruction"
    functions = (go.generate_push_instruction, utils.get_ins_size)
    stubs = {'sfs_generator.utils.get_num_bytes_int': lambda it, v: cost.nbytes(v)}
    seeds = [dict(p0=p, value=v, idx=0) for p in (False, True) for v in (0, 1, 2 ** 256 - 1)]

    def run(self, H):
        p0 = H.bool('p0')
        H.set_global(constants, 'push0_enabled', p0)
        value = H.word('value')
        idx = H.int('idx', 0, 1000)
        out = H.call(go.generate_push_instruction, idx, value, "s(7)")
        H.check('raises-nothing', out.ok, info=repr(out.exc))
        if not out.ok:
            return
        o = out.value
        d = o["disasm"]
        H.check('disasm-in-{PUSH,PUSH0}', sor(sym.sym_eq(d, "PUSH"), sym.sym_eq(d, "PUSH0")))
        H.check('PUSH0<=>flag&zero', sym.sym_eq(_b(sym.sym_eq(d, "PUSH0")), _b(sand(p0, value == 0))) if H.symbolic
                else ((d == "PUSH0") == bool(p0 and value == 0)))
        H.check('value-kept', sand(len(o["value"]) == 1, sym.sym_eq(o["value"][0], value)))
        H.check('gas=table', o["gas"] == ite(sand(p0, value == 0), 2, 3))
        H.check('outpt', o["outpt_sk"] == ["s(7)"] and o["inpt_sk"] == [])
        H.check('size=table', o["size"] == cost.push_bytes(value, p0))


class IdToAsmPush(Case):
    """back end: the item rebuilt from a PUSH/PUSH0 instruction prints as PUSH0 only under the flag"""
    prop = 'C17'
    tier = 'P'
    functions = (ids2asm.id_to_asm_bytecode, AsmBytecode.to_plain, AsmBytecode.to_plain_with_byte_number, AsmBytecode.to_json)
    max_steps = 1000

    def __init__(self, disasm):
        self.d = disasm
        self.name = "id_to_asm_bytecode[%s]" % disasm

    def run(self, H):
        p0 = H.bool('p0')
        H.set_global(constants, 'push0_enabled', p0)
        value = H.word('value')
        if self.d == 'PUSH0':
            H.assume(value == 0)
        instr = {"id": "X_0", "disasm": self.d, "value": [value], "inpt_sk": [], "outpt_sk": ["s(1)"]}
        out = H.call(ids2asm.id_to_asm_bytecode, {"X_0": instr}, "X_0")
        H.check('raises-nothing', out.ok, info=repr(out.exc))
        if not out.ok:
            return
        item = out.value
        H.check('item-name-is-PUSH', item.disasm == "PUSH")
        for meth in ('to_plain', 'to_plain_with_byte_number'):
            o2 = H.call(getattr(AsmBytecode, meth), item)
            H.check(meth + ':raises-nothing', o2.ok, info=repr(o2.exc))
            if o2.ok:
                t = o2.value
                H.check(meth + ':PUSH0-text<=>flag&zero',
                        sym.sym_eq(_b(sym.sym_eq(t, "PUSH0")), _b(sand(p0, value == 0))) if H.symbolic
                        else ((t == "PUSH0") == bool(p0 and value == 0)))
        o3 = H.call(AsmBytecode.bytes_required.fget, item)
        if o3.ok:
            H.check('emitted-item-priced-by-same-table', o3.value == cost.push_bytes(value, p0))


class Tracer(object):
    def __init__(self):
        self.events = []


class ExecuteGasolOrder(Case):
    """execute_gasol applies params.push0 to the global flag before any parsing/optimization entry point runs"""
    prop = 'C17'
    tier = 'P'
    name = "execute_gasol(push0-before-parsing)"
    functions = (gasol_asm.execute_gasol, constants._set_push0)

    def make_stubs(self):
        def entry(nm):
            def st(it, params, *a):
                it.trace.append((nm, it.get_global(constants, 'push0_enabled')))
                return None
            return st
        stubs = {}
        for nm in ('optimize_isolated_asm_block', 'optimize_from_sfs', 'optimize_asm_from_asm_json',
                   'optimize_asm_in_asm_format', 'optimize_asm_from_log'):
            stubs['gasol_asm.' + nm] = entry(nm)
        stubs['gasol_asm.create_ml_models'] = lambda it, p: None
        stubs['gasol_asm.modify_file_names'] = lambda it, p: None
        stubs['shutil.rmtree'] = lambda it, *a, **k: None
        stubs['_io.open'] = lambda it, *a, **k: DummyFile()
        stubs['json.load'] = lambda it, f: {}
        return stubs

    def run(self, H):
        # precondition: main_gasol() has called init() (the six running totals exist)
        for nm in ('previous_gas', 'new_gas', 'previous_size', 'new_size', 'prev_n_instrs', 'new_n_instrs'):
            H.set_global(gasol_asm, nm, 0)
        H.set_global(constants, 'push0_enabled', H.bool('initial_flag'))
        p = types.SimpleNamespace(split_storage=H.choice('storage', [False, True]), push0=H.bool('push0'),
                                  from_log=H.choice('from_log', [None, "x.log"]),
                                  input_format=H.choice('fmt', ["plain", "sfs", "single-asm", "asm"]),
                                  keep_files=H.choice('keep', [False, True]),
                                  optimization_enabled=H.choice('opt', [True, False]), optimized_file="o", seqs_file="s")
        out = H.call(gasol_asm.execute_gasol, p)
        ok = out.ok or isinstance(out.exc, SystemExit)
        H.check('raises-nothing', ok, info=repr(out.exc))
        tr = H.it.trace
        H.check('an-entry-point-runs', len(tr) == 1)
        for nm, flag in tr:
            H.check('flag=params.push0-at-entry', sym.sym_eq(flag, p.push0) if H.symbolic else (flag == p.push0))


class DummyFile(object):
    def __init__(self):
        self.written = []

    def __enter__(self):
        return self

    def __exit__(self, *a):
        return False

    def write(self, x):
        self.written.append(x)


class ContractFilter(Case):
    """only the selected contract (all contracts with asm if none is selected) is handed to the optimizer; every
    other contract object is passed through unchanged, order kept"""
    prop = 'C17'
    tier = 'P'
    name = "optimize_asm_in_asm_format(contract-filter)"
    functions = (gasol_asm.optimize_asm_in_asm_format,)
    K = 3

    def make_stubs(self):
        case = self

        def st_parse(it, path):
            return it.asm_obj

        def st_opt(it, c, params):
            new = types.SimpleNamespace(kind='optimized', of=c, shortened_name=c.shortened_name)
            it.trace.append(('optimize', c))
            return new, [], {}, []

        def st_dumps(it, obj, *a, **k):
            it.trace.append(('dumps', obj))
            return "<json>"

        class DF(object):
            def __init__(self, *a, **k):
                pass

            def to_csv(self, *a, **k):
                return None
        return {'gasol_asm.parse_asm': st_parse, 'sfs_generator.parser_asm.parse_asm': st_parse,
                'gasol_asm.optimize_asm_contract': st_opt, 'json.dumps': st_dumps,
                'json.dump': lambda it, obj, f, *a, **k: None, '_io.open': lambda it, *a, **k: DummyFile(),
                'pandas.DataFrame': lambda it, *a, **k: DF(),
                'sfs_generator.asm_json.AsmJSON.to_json': lambda it, self: ('ASMJSON', list(self.contracts)),
                }

    def run(self, H):
        names = ["ERC20", "IERC20", "C"]        # one name is a suffix of another one
        cs = [types.SimpleNamespace(has_asm_field=H.bool('has_asm%d' % i), shortened_name=names[i], idx=i,
                                    contract_name="dir/file.sol:" + names[i]) for i in range(self.K)]
        asm = asm_json_mod.AsmJSON("v")
        asm._contracts = list(cs)
        H.it.asm_obj = asm
        sel = H.choice('selected', [None, "ERC20", "IERC20", "C", "Z", "20"])
        p = types.SimpleNamespace(input_file="in", contract=sel, generate_log=H.choice('log', [False, True]),
                                  log_file="l", optimization_enabled=True, optimized_file="o", seqs_file="s", blocks_file="b")
        out = H.call(gasol_asm.optimize_asm_in_asm_format, p)
        opt = [c for (k, c) in H.it.trace if k == 'optimize']
        dumped = [o for (k, o) in H.it.trace if k == 'dumps']
        # which contracts may be optimized: has asm and (no selection or selected)
        for i, c in enumerate(cs):
            selected = (sel is None or sel == names[i])
            was_opt = any(x is c for x in opt)
            if not selected:
                H.check('unselected-contract-not-optimized', not was_opt)
            else:
                H.check('selected<=>optimized-iff-has-asm', sym.sym_eq(_b(c.has_asm_field), was_opt) if H.symbolic
                        else (bool(c.has_asm_field) == was_opt))
        if sel is None:
            H.check('raises-nothing', out.ok, info=repr(out.exc))
            ok = len(dumped) == 1 and isinstance(dumped[0], tuple) and dumped[0][0] == 'ASMJSON' and len(dumped[0][1]) == self.K
            H.check('whole-document-written', ok)
            if ok:
                for i, c in enumerate(cs):
                    e = dumped[0][1][i]
                    was_opt = any(x is c for x in opt)
                    H.check('position-%d:same-object-or-its-optimized-version' % i,
                            (e is c and not was_opt) or (getattr(e, 'kind', None) == 'optimized' and e.of is c and was_opt))


from pyvc.harness import NativeCase


class PlainZeroPushSpellings(NativeCase):
    """finite: every plain-text spelling of a zero push (PUSH0, PUSH 0, PUSH 0x0, PUSH1 0x00, PUSH1 0x0, PUSH2 0x0000) is read into the
    same item under the same flag value - PUSH0 when the flag is on, PUSH 0 when it is off - so the input block and the block
    optimize_block re-reads from original_instrs are priced with the flag like the emitted code (seed C17-6: the token PUSH0 kept as
    its own opcode whatever the flag says)"""
    prop = 'C17'
    tier = 'F'
    name = "plain-text-zero-push(all spellings, both flag values)"
    functions = (parser_asm.plain_instructions_to_asm_representation, parser_asm.parse_blocks_from_plain_instructions)

    def run_native(self, tier):
        spellings = ["PUSH0", "PUSH 0", "PUSH 0x0", "PUSH1 0x00", "PUSH1 0x0", "PUSH2 0x0000", "PUSH 0x00"]
        saved = constants.push0_enabled
        try:
            for flag in (True, False):
                constants._set_push0(flag)
                seen = {}
                for sp in spellings:
                    for ctx in ("%s", "%s ADD", "DUP1 %s SSTORE"):
                        text = ctx % sp
                        blk = parser_asm.parse_blocks_from_plain_instructions(text)[0]
                        z = [i for i in blk.instructions if i.disasm.startswith("PUSH")]
                        view = [(i.disasm, i.value) for i in z]
                        want = [("PUSH0", None)] if flag else [("PUSH", "0")]
                        self.ob('zero push read as %s' % ("PUSH0" if flag else "PUSH 0"), view == want, inputs=dict(text=text, push0_enabled=flag), info=view)
                        seen.setdefault(ctx, set()).add((blk.bytes_required, blk.gas_spent))
                for ctx, figs in seen.items():
                    self.ob('all spellings priced alike under one flag value', len(figs) == 1, inputs=dict(context=ctx, push0_enabled=flag), info=sorted(figs))
        finally:
            constants._set_push0(saved)
        self.assumptions = ("finite: 7 spellings x 3 contexts x 2 flag values",)


def cases(tier='quick'):
    from . import c08
    cs = [IsPush0(d) for d in ("PUSH", "PUSH0", "ADD", "PUSH [tag]")]
    cs += [c08.ItemCost(n) for n in ("PUSH", "PUSH0")]
    for c in cs[-2:]:
        c.prop = 'C17'
    cs += [BuildAsmBytecode(n) for n in ITEM_NAMES]
    cs.append(GeneratePush())
    cs += [IdToAsmPush(d) for d in ("PUSH", "PUSH0")]
    cs.append(ExecuteGasolOrder())
    cs.append(ContractFilter())
    cs.append(PlainZeroPushSpellings())
    return cs, {}
