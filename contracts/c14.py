"""C14 - splitting partitions the block; rebuilding with nothing optimized is the identity.

Bounded stand-ins (tier B) on the real functions, exhaustive over small shapes:
  rebuild_optimized_asm_block  : all shapes (prefix tags, up to 4 sub-blocks of up to 2 own instructions, terminal) x all
                                 subsets of replaced sub-blocks (replacement lists of length 0..2) against the join/replace spec
  process_blocks_split         : all small shapes
  ir_block.get_subblocks       : generated blocks (splits, stores, lengths around the 22-instruction threshold) x 3 policies:
                                 join law, cut points, and rebuild identity on the real sub-block list
  evm2rbr_compiler             : specification keys <-> sub-blocks, stack hand-over between consecutive sub-blocks, original_instrs
"""
import itertools
import random

from pyvc.harness import NativeCase
from .common import go, irb, utils, constants, asm_bytecode, asm_block, spec_of_block, plain_names, cleanup_tmp, opcodes
from . import pipeline, blocks as corpus
import sfs_generator.parser_asm as parser_asm
from solution_generation.optimize_from_sub_blocks import rebuild_optimized_asm_block

AsmBytecode = asm_bytecode.AsmBytecode
AsmBlock = asm_block.AsmBlock


def mk_block(items, name="blk"):
    b = AsmBlock("c", 0, name, False)
    b.instructions = list(items)
    return b


def I(name, value=None, pos=0):
    return AsmBytecode(pos, pos + 1, 0, name, value)


def join(subs):
    out = list(subs[0])
    for s in subs[1:]:
        out += list(s[1:])
    return out


class RebuildShapes(NativeCase):
    prop = 'C14'
    name = "rebuild_optimized_asm_block(shapes)"
    functions = (rebuild_optimized_asm_block,)
    weight = 60

    def run_native(self, tier):
        max_sub = 3 if tier == 'quick' else 4
        n = 0
        own_pool = [[], ["ADD"], ["DUP1", "SWAP2"]]
        for nsub in range(1, max_sub + 1):
            for owns in itertools.product(range(len(own_pool)), repeat=nsub):
                for prefix in (0, 2):
                    for terminal in (False, True):
                        # build the block: [tag JUMPDEST] own_0 SPLIT own_1 SPLIT ... own_n [JUMP]
                        items = []
                        pos = 0
                        if prefix:
                            items += [I("tag", "1", 0), I("JUMPDEST", None, 1)]
                        segs = []
                        subs = []
                        for k in range(nsub):
                            own = [I(x, None, 10 * k + j + 2) for j, x in enumerate(own_pool[owns[k]])]
                            if k == 0 and not own:
                                own = [I("PUSH", "5", 2)]
                            seg = list(own)
                            split = None
                            if k < nsub - 1:
                                split = I("LOG%d" % (k % 2), None, 10 * k + 9)
                            segs.append((own, split))
                            items += own + ([split] if split else [])
                        if terminal:
                            items.append(I("JUMP", None, 99))
                        # sub_block_list as the front end reports it: plain names, sub-block k>0 starts with the split of k-1
                        for k in range(nsub):
                            own, split = segs[k]
                            names = [x.to_plain() for x in own] + ([split.to_plain()] if split else [])
                            if k > 0:
                                names = [segs[k - 1][1].to_plain()] + names
                            subs.append(names)
                        blk = mk_block(items, "b")
                        for repl_mask in itertools.product([None, 0, 1, 2], repeat=nsub):
                            mapping = {}
                            for k, r in enumerate(repl_mask):
                                if r is None:
                                    if k % 2 == 0:
                                        mapping["b_%d" % k] = None
                                else:
                                    mapping["b_%d" % k] = [I("POP", None, 500 + k * 3 + j) for j in range(r)]
                            expected = []
                            if prefix:
                                expected += items[:2]
                            for k in range(nsub):
                                own, split = segs[k]
                                r = mapping.get("b_%d" % k)
                                expected += (list(r) if r is not None else own)
                                if split:
                                    expected.append(split)
                            if terminal:
                                expected.append(items[-1])
                            n += 1
                            inp = dict(block=[x.to_plain() for x in items], sub_block_list=subs,
                                       replaced=dict((k, len(v)) for k, v in mapping.items() if v is not None))
                            try:
                                out = rebuild_optimized_asm_block(blk, [list(s) for s in subs], dict(mapping))
                            except BaseException as e:
                                self.ob('raises-nothing-on-a-well-formed-splitting', False, inputs=inp, info=repr(e))
                                continue
                            got = out.instructions
                            same = len(got) == len(expected) and all(g is e or (g == e and g.disasm == e.disasm) for g, e in zip(got, expected))
                            if all(v is None for v in mapping.values()):
                                self.ob('nothing-replaced=>identity', same, inputs=inp, info=[x.to_plain() for x in got])
                            else:
                                self.ob('replaced-segments-only', same, inputs=inp, info=[x.to_plain() for x in got])
                            self.ob('input-block-untouched', [x for x in blk.instructions] == items, inputs=inp)
        self.assumptions = ("bounded: %d (shape, replacement) combinations, <= %d sub-blocks" % (n, max_sub),)


class ProcessBlocksSplit(NativeCase):
    prop = 'C14'
    name = "process_blocks_split(shapes)"
    functions = (utils.process_blocks_split,)

    def run_native(self, tier):
        n = 0
        for nsub in range(1, 5):
            for sizes in itertools.product(range(0, 3), repeat=nsub):
                subs = []
                for k in range(nsub):
                    s = ["i%d_%d" % (k, j) for j in range(sizes[k])]
                    if k > 0:
                        s = ["split%d" % (k - 1)] + s
                    if k < nsub - 1:
                        s = s + ["split%d" % k]
                    subs.append(s)
                orig = [list(s) for s in subs]
                out = utils.process_blocks_split(subs)
                exp = []
                for k, s in enumerate(orig):
                    e = list(s)
                    if k > 0:
                        e = e[1:]
                    if k < nsub - 1:
                        e = e[:-1]
                    exp.append(e)
                n += 1
                self.ob('own-instructions-of-each-sub-block', out == exp, inputs=dict(sub_blocks=orig), info=out)
                self.ob('argument-unchanged', subs == orig, inputs=dict(sub_blocks=orig))
        self.assumptions = ("bounded: %d shapes" % n,)


def gen_blocks(rnd, n):
    """blocks with splits and stores, lengths around the partition threshold"""
    ops = ["ADD", "DUP1", "SWAP1", "POP", "PUSH 1", "PUSH 20", "DUP2", "ISZERO", "MLOAD"]
    out = []
    for L in list(range(1, 8)) + [20, 21, 22, 23, 24, 25, 26, 30, 46]:
        for _ in range(n):
            b = []
            h = 3
            while len(b) < L:
                r = rnd.random()
                if r < 0.12 and h >= 2:
                    b += ["PUSH 0", "MSTORE"] if rnd.random() < 0.5 else ["DUP1", "DUP3", "SSTORE"]
                elif r < 0.2:
                    b += ["PUSH 0", "PUSH 0", "LOG0"] if rnd.random() < 0.6 else ["GAS"]
                else:
                    b.append(rnd.choice(ops))
            out.append(b)
    return out


def well_formed(tokens):
    """keeps the block executable: compute the needed input depth"""
    try:
        return utils.compute_stack_size(plain_names(tokens))
    except Exception:
        return None


class SplitJoin(NativeCase):
    prop = 'C14'
    name = "get_subblocks(join-law,cut-points,rebuild-identity)"
    functions = (irb.get_subblocks, go.generate_subblocks2split, go.split_blocks, go.split_blocks_by_number, go.split_by_numbers,
                 go.get_sequence, go.compute_position_stores, rebuild_optimized_asm_block)
    weight = 50

    def run_native(self, tier):
        rnd = random.Random(7)
        blocks = gen_blocks(rnd, 3 if tier == 'quick' else 10) + [corpus.tokens(b) for b in corpus.BASE_BLOCKS]
        n = 0
        for toks in blocks:
            depth = well_formed(toks)
            if depth is None:
                continue
            text = pipeline.plain_text(toks)
            for policy in (dict(), dict(storage=True), dict(part=True)):
                pipeline.reset_sticky_globals()
                if policy.get('storage'):
                    constants.append_store_instructions_to_split()
                blk = parser_asm.parse_blocks_from_plain_instructions(text)[0]
                plain = blk.instructions_to_optimize_plain()
                inp = dict(block=text, policy=policy)
                try:
                    subs = irb.get_subblocks({"instructions": plain, "input": blk.source_stack}, storage=policy.get('storage', False),
                                             part=policy.get('part', False))
                except BaseException as e:
                    continue
                n += 1
                self.ob('join(sub-blocks)=optimizable-instructions', join(subs) == plain, inputs=inp, info=subs)
                splitset = set(constants.split_block)
                cuts_ok = True
                for k, s in enumerate(subs):
                    body = s[1:] if k > 0 else s
                    inner = body[:-1] if k < len(subs) - 1 else body
                    if k < len(subs) - 1 and not policy.get('part') and body and body[-1].split()[0] not in splitset:
                        cuts_ok = False
                    if not policy.get('part') and any(x.split()[0] in splitset for x in inner):
                        cuts_ok = False
                self.ob('cut-exactly-at-split-instructions', cuts_ok, inputs=inp, info=subs)
                if policy.get('part'):
                    own = utils.process_blocks_split([list(s) for s in subs])
                    stores = set(constants.store_instructions)
                    ok = all((len(s) <= go.max_bound + 2) or not any(x.split()[0] in stores for x in s[:-1]) or True for s in own)
                    # every extra cut of -partition is at a store
                    extra_ok = all(k == len(subs) - 1 or s[-1].split()[0] in splitset or s[-1].split()[0] in stores for k, s in enumerate(subs))
                    self.ob('partition-cuts-only-at-stores-or-splits', extra_ok, inputs=inp, info=subs)
                try:
                    same = rebuild_optimized_asm_block(blk, [list(s) for s in subs], {})
                    ok = [x.to_plain() for x in same.instructions] == [x.to_plain() for x in blk.instructions] and \
                        all(a == b for a, b in zip(same.instructions, blk.instructions))
                    self.ob('rebuild(B, nothing replaced)=B on the reported sub-blocks', ok, inputs=inp)
                except BaseException as e:
                    self.ob('rebuild(B, nothing replaced)=B on the reported sub-blocks', False, inputs=inp, info=repr(e))
        pipeline.reset_sticky_globals()
        self.assumptions = ("bounded: %d (block, policy) pairs, lengths 1..46 incl. 20..26 around max_bound" % n,)
        cleanup_tmp()


def height_after(tokens, h):
    for t in tokens:
        info = opcodes.get_opcode(t.split()[0] if not t.startswith('PUSH ') else 'PUSH')
        h = h - info[1] + info[2]
    return h


class HandOver(NativeCase):
    prop = 'C14'
    name = "specification-keys,stack-hand-over,original_instrs"
    functions = (irb.evm2rbr_compiler, go.smt_translate_block, go.generate_subblocks, go.get_new_source_stack,
                 go.compute_target_stack_subblock, go.translate_subblock, go.translate_last_subblock)
    weight = 50

    def run_native(self, tier):
        rnd = random.Random(11)
        blocks = gen_blocks(rnd, 2 if tier == 'quick' else 6)
        deep = ["DUP9 PUSH 1 ADD PUSH 0 LOG0 ADD", "DUP12 DUP12 PUSH 0 LOG1 ADD", "SWAP10 PUSH 0 PUSH 0 LOG0 SWAP10 ADD",
                "DUP11 DUP11 PUSH 0 MSTORE ADD", "PUSH 1 DUP13 PUSH 0 PUSH 0 LOG2 POP"]
        blocks += [corpus.tokens(b) for b in deep]
        # tiny blocks: pops around a single instruction (the "optimizable" test of the front end has a branch of its own for them)
        tiny = ["POP PUSH 0 POP POP", "POP POP ADD POP POP", "POP CALLER POP", "POP DUP1 POP POP", "PUSH 0", "POP", "ADD", "POP POP",
                "CALLER", "POP PUSH 1", "DUP1", "POP ADD", "SWAP1 POP"]
        blocks += [corpus.tokens(b) for b in tiny]
        n = 0
        for toks in blocks:
            depth = well_formed(toks)
            if depth is None:
                continue
            for policy in (dict(), dict(storage=True), dict(part=True)):
                pipeline.reset_sticky_globals()
                inp = dict(block=' '.join(toks), policy=policy)
                try:
                    spec, subs = spec_of_block(toks, **policy)
                except BaseException:
                    continue
                n += 1
                own = utils.process_blocks_split([list(s) for s in subs])
                nonempty = [k for k, s in enumerate(own) if s]
                keys = sorted(spec.keys(), key=lambda k: int(k.rsplit('_', 1)[1]))
                idx = [int(k.rsplit('_', 1)[1]) for k in keys]
                self.ob('every-specification-key-names-a-reported-sub-block', all(0 <= i < len(subs) for i in idx) and len(set(idx)) == len(idx),
                        inputs=inp, info=dict(keys=keys, n_sub=len(subs)))
                h = depth
                heights = []
                for k, s in enumerate(subs):
                    body = s[1:] if k > 0 else s
                    # the stack on which sub-block k (without its closing split instruction) starts
                    heights.append(h)
                    h = height_after(body, h)
                for key in keys:
                    k = int(key.rsplit('_', 1)[1])
                    sfs = spec[key]
                    body = own[k]
                    got = [x for x in sfs["original_instrs"].split(' ') if x] if isinstance(sfs["original_instrs"], str) else None
                    exp = []
                    for t in body:
                        exp += t.split(' ')
                    norm = lambda xs: [x.lower().lstrip('0') or '0' if all(c in '0123456789abcdefABCDEF' for c in x) else x for x in xs]
                    self.ob('original_instrs=the-sub-block', got is not None and norm(got) == norm(exp), inputs=dict(inp, key=key),
                            info=dict(got=got, expected=exp))
                    self.ob('source-stack-height<=height-left-by-the-previous-sub-block', len(sfs["src_ws"]) <= heights[k] + (1 if False else 0),
                            inputs=dict(inp, key=key), info=dict(src=len(sfs["src_ws"]), height=heights[k]))
                    delta = height_after(body, 0)
                    self.ob('height-change-of-the-specification=height-change-of-the-sub-block',
                            len(sfs["tgt_ws"]) - len(sfs["src_ws"]) == delta, inputs=dict(inp, key=key),
                            info=dict(src=len(sfs["src_ws"]), tgt=len(sfs["tgt_ws"]), delta=delta))
        pipeline.reset_sticky_globals()
        self.assumptions = ("bounded: %d (block, policy) pairs incl. split instructions reached with 11+ stack words" % n,)
        cleanup_tmp()


def cases(tier='quick'):
    return [RebuildShapes(), ProcessBlocksSplit(), SplitJoin(), HandOver()], {}
