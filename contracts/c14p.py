"""C14 / C09 - rebuild_optimized_asm_block under loop contracts: sub-blocks, prefix, suffix and replacements of ANY length.

The number of sub-blocks is enumerated (1..3, the spine of sub_block_list); everything else is symbolic:
  previous_instructions : list of opaque items of arbitrary length, observed through to_plain()
  each sub-block         : list of strings of arbitrary length
  each replacement       : absent / None / a list of items of arbitrary length
Precondition (S is a splitting of B, in the matching relation the code asserts):
  the first PRE items do not print as S[0][0]; item PRE+p contains S[0][p]; the own instructions of sub-block k+1 follow those of
  sub-block k, and its first entry is contained in the last item of sub-block k.
Postcondition: result = PRE-items ++ E_0 ++ ... ++ E_n-1 ++ remaining items, where E_k is the replacement (followed by the shared
  split item when k is not the last sub-block) if sub-block k is replaced, and the original items of the segment otherwise.
"""
import types
import z3

from pyvc import sym
from pyvc.sym import Sym, sand, implies
from pyvc.harness import Case
from pyvc.symlist import SymList, StrCodec, LoopSpec, as_symlist
from . import common  # noqa
import solution_generation.optimize_from_sub_blocks as ofs

Item = z3.DeclareSort('Item')
to_plain_fn = z3.Function('to_plain', Item, z3.StringSort())
QUAL = 'solution_generation.optimize_from_sub_blocks.rebuild_optimized_asm_block'


disasm_fn = z3.Function('disasm', Item, z3.StringSort())
value_fn = z3.Function('value', Item, sym.Val)


class ItemProxy(object):
    def __init__(self, e):
        self.e = e
        self.disasm = Sym(disasm_fn(e))
        self.value = Sym(value_fn(e))
        self.real_value = None          # assignments to real_value do not change which item it is

    def to_plain(self):
        return Sym(to_plain_fn(self.e))

    def __deepcopy__(self, memo):
        return self

    def __eq__(self, o):
        return Sym(self.e == o.e) if isinstance(o, ItemProxy) else False

    __hash__ = None


class ItemCodec(object):
    sort = Item

    def to_z3(self, x):
        return x.e

    def from_z3(self, e):
        return ItemProxy(e)


def prefix_eq(out, base, extra_arr, extra_from, count):
    """z3: out = base ++ extra[extra_from : extra_from+count]"""
    i = z3.Int('i!pe')
    return z3.And(out.n == base.n + count,
                  z3.ForAll([i], z3.Implies(z3.And(i >= 0, i < base.n), out.at(i) == base.at(i))),
                  z3.ForAll([i], z3.Implies(z3.And(i >= 0, i < count), out.at(base.n + i) == z3.Select(extra_arr, extra_from + i))))


class _CopyLoop(LoopSpec):
    """loops that copy items prev[idx0 + j] to the output while advancing instr_idx (prefix loop, kept-segment loop, suffix loop)"""

    def __init__(self, kind):
        self.kind = kind

    def enter(self, it, fr):
        self.idx0 = sym._as_int_expr(fr.locals['instr_idx'])
        if isinstance(fr.locals['optimized_instructions'], list):
            # the accumulator starts as a concrete (empty) list: from here on it is a list of symbolic length
            fr.locals['optimized_instructions'] = as_symlist(fr.locals['optimized_instructions'], ItemCodec())
        self.out0 = fr.locals['optimized_instructions'].clone()

    def havoc(self, it, fr, k):
        fr.locals['instr_idx'] = it.path.fresh_int('idx')
        out = fr.locals['optimized_instructions']
        fresh = SymList(out.codec, name='out')
        out.arr, out.n = fresh.arr, fresh.n          # same object (aliasing kept), fresh contents

    def inv(self, it, fr, k):
        idx = sym._as_int_expr(fr.locals['instr_idx'])
        out = fr.locals['optimized_instructions']
        prev = fr.locals['previous_instructions']
        cnt = idx - self.idx0
        c = [cnt >= 0, idx <= prev.n, prefix_eq(out, self.out0, prev.arr, self.idx0, cnt)]
        if k is not None:
            c.append(cnt == sym._as_int_expr(k))
        if self.kind == 'prefix':
            j = z3.Int('j!pre')
            first = fr.locals['sub_block_list'][0]
            c.append(z3.ForAll([j], z3.Implies(z3.And(j >= self.idx0, j < idx), to_plain_fn(prev.at(j)) != first.at(z3.IntVal(0)))))
        return z3.And(*c)


class _NoStructuralChange(LoopSpec):
    """for instr in optimized_instructions (restoration of PUSHLIB operands): the list structure is not modified"""

    def havoc(self, it, fr, k):
        pass

    def inv(self, it, fr, k):
        return z3.BoolVal(True)


class _SkipLoop(LoopSpec):
    """for disasm in considered_sub_block of a replaced sub-block: only instr_idx advances"""

    def enter(self, it, fr):
        self.idx0 = sym._as_int_expr(fr.locals['instr_idx'])

    def havoc(self, it, fr, k):
        fr.locals['instr_idx'] = it.path.fresh_int('idx')

    def inv(self, it, fr, k):
        idx = sym._as_int_expr(fr.locals['instr_idx'])
        return idx == self.idx0 + sym._as_int_expr(k)


class RebuildUnbounded(Case):
    prop = 'C14'
    tier = 'P'
    functions = (ofs.rebuild_optimized_asm_block,)
    native_cover = False
    timeout_ms = 30000
    max_paths = 3000
    assumptions = ("the number of sub-blocks is enumerated (1..3); all lengths (prefix, sub-blocks, replacements, suffix) are symbolic",
                   "items are opaque values observed through to_plain(); deepcopy(item) is an equal item",
                   "precondition: the sub-block list is a splitting of the block in the matching relation asserted by the code")

    def __init__(self, nsub):
        self.nsub = nsub
        self.name = "rebuild_optimized_asm_block(unbounded,%d sub-blocks)" % nsub
        self.loops = {(QUAL, 0): _CopyLoop('prefix'), (QUAL, 2): _SkipLoop(), (QUAL, 3): _CopyLoop('kept'), (QUAL, 4): _CopyLoop('suffix'),
                      (QUAL, 5): _NoStructuralChange()}

    def run(self, H):
        if not H.symbolic:
            return
        n = self.nsub
        prev = SymList(ItemCodec(), name='prev')
        subs = [SymList(StrCodec(), name='S%d' % k) for k in range(n)]
        P = z3.Int('PRE')
        H.assume(z3.And(P >= 0, P <= prev.n))
        cons_len = []
        offs = []
        off = P
        for k in range(n):
            H.assume(subs[k].n >= 1)                                   # a reported sub-block is never empty
            ln = subs[k].n if k == 0 else subs[k].n - 1
            cons_len.append(ln)
            offs.append(off)
            off = off + ln
        H.assume(off <= prev.n)
        j = z3.Int('j!pc')
        # prefix items do not print as the first entry of the first sub-block
        H.assume(z3.ForAll([j], z3.Implies(z3.And(j >= 0, j < P), to_plain_fn(prev.at(j)) != subs[0].at(z3.IntVal(0)))))
        H.assume(z3.Implies(P < prev.n, to_plain_fn(prev.at(P)) == subs[0].at(z3.IntVal(0))))
        for k in range(n):
            shift = 0 if k == 0 else 1
            H.assume(z3.ForAll([j], z3.Implies(z3.And(j >= 0, j < cons_len[k]),
                                               z3.Contains(to_plain_fn(prev.at(offs[k] + j)), subs[k].at(j + shift)))))
            if k > 0:
                H.assume(z3.Contains(to_plain_fn(prev.at(offs[k] - 1)), subs[k].at(z3.IntVal(0))))
                H.assume(cons_len[k - 1] >= 1)
        mapping = {}
        repl = []
        for k in range(n):
            c = H.choice('replacement%d' % k, ['absent', 'none', 'list'])
            if c == 'none':
                mapping["b_%d" % k] = None
                repl.append(None)
            elif c == 'list':
                r = SymList(ItemCodec(), name='R%d' % k)
                mapping["b_%d" % k] = r
                repl.append(r)
            else:
                repl.append(None)
        block = types.SimpleNamespace(block_name="b", instructions=prev)
        out = H.call(ofs.rebuild_optimized_asm_block, block, subs, mapping)
        H.check('raises-nothing-on-a-well-formed-splitting', out.ok, info=repr(out.exc))
        if not out.ok:
            return
        res = out.value.instructions
        # expected result, built with the list algebra of the specification
        exp = prev._slice(None, sym.wrap(P), None) if True else None
        for k in range(n):
            seg = prev._slice(sym.wrap(offs[k]), sym.wrap(offs[k] + cons_len[k]), None)
            if repl[k] is not None:
                exp = exp + repl[k]
                if k < n - 1:
                    exp.append(ItemProxy(prev.at(offs[k] + cons_len[k] - 1)))
            else:
                exp = exp + seg
        exp = exp + prev._slice(sym.wrap(off), None, None)
        H.check('result = prefix ++ (replacement | original segment)* ++ rest', Sym(res.same_as(exp)))
        H.check('input-block-untouched', Sym(block.instructions.same_as(prev)))
        if all(r is None for r in repl):
            H.check('nothing-replaced=>identity', Sym(res.same_as(prev)))


def cases(tier='quick'):
    return [RebuildUnbounded(n) for n in ((1, 2) if tier == 'quick' else (1, 2, 3))], {}
