"""C14 / C09 - rebuild_optimized_asm_block under loop contracts: sub-blocks, prefix, suffix and replacements of ANY length.

The number of sub-blocks is enumerated (1..3, the spine of sub_block_list); everything else is symbolic:
  previous_instructions : list of opaque items of arbitrary length, observed through to_plain()
  each sub-block         : list of strings of arbitrary length
  each replacement       : absent / None / a list of items of arbitrary length
Precondition (S is a splitting of B, in the matching relation the code asserts):
  the first PRE items do not print as S[0][0]; item PRE+p contains S[0][p]; the own instructions of sub-block k+1 follow those of
  sub-block k, and its first entry is contained in the last item of sub-block k.
Postcondition: result = PRE-items ++ E_0 ++ ... ++ E_n-1 ++ remaining items, where E_k is the replacement (followed by the shared
  split item when k is not the last sub-block) if sub-block k is replaced, and the original items of the segment otherwise.
"""
import ast
import itertools
import types
import z3

from pyvc import sym
from pyvc.sym import Sym, sand, implies
from pyvc.harness import Case
from pyvc.symlist import SymList, Rope, StrCodec, LoopSpec
from . import common  # noqa
import solution_generation.optimize_from_sub_blocks as ofs

Item = z3.DeclareSort('Item')
to_plain_fn = z3.Function('to_plain', Item, z3.StringSort())
QUAL = 'solution_generation.optimize_from_sub_blocks.rebuild_optimized_asm_block'


disasm_fn = z3.Function('disasm', Item, z3.StringSort())
value_fn = z3.Function('value', Item, sym.Val)


class ItemProxy(object):
    def __init__(self, e):
        self.e = e
        self.disasm = Sym(disasm_fn(e))
        self.value = Sym(value_fn(e))
        self.real_value = None          # assignments to real_value do not change which item it is

    def to_plain(self):
        return Sym(to_plain_fn(self.e))

    def __deepcopy__(self, memo):
        return self

    def __eq__(self, o):
        return Sym(self.e == o.e) if isinstance(o, ItemProxy) else False

    __hash__ = None


class ItemCodec(object):
    sort = Item

    def to_z3(self, x):
        return x.e

    def from_z3(self, e):
        return ItemProxy(e)


def _segment_hints(it, k):
    """instances, at the ghost iteration index, of the (universally quantified) precondition that relates the entries of each
    sub-block to the items of the block: spares the solver an instantiation modulo arithmetic"""
    if k is None:
        return
    for fact in it.cfg['seg_facts']:
        it.path.assume(fact(sym._as_int_expr(k)))


def _roles(node):
    """roles of the names in a loop of the function, read off its syntax (so that renamed locals keep their contract):
    idx  = the name advanced by `+= 1`            acc = the name whose .append is called
    src  = the name subscripted by idx"""
    idx = acc = src = guard = None
    for st in node.body:
        # an append guarded by a test that the loop does not change:  if <guard>: acc.append(...)
        if isinstance(st, ast.If) and not st.orelse and any(isinstance(c, ast.Call) and isinstance(c.func, ast.Attribute) and c.func.attr == 'append'
                                                             for c in ast.walk(st)):
            assigned = set(t.id for n in ast.walk(node) for t in (getattr(n, 'targets', None) or [getattr(n, 'target', None)])
                           if isinstance(t, ast.Name))
            if not any(isinstance(n, ast.Name) and n.id in assigned for n in ast.walk(st.test)) \
                    and not any(isinstance(n, ast.Call) for n in ast.walk(st.test)):
                guard = st.test
    for n in ast.walk(node):
        if isinstance(n, ast.AugAssign) and isinstance(n.op, ast.Add) and isinstance(n.target, ast.Name) \
                and isinstance(n.value, ast.Constant) and n.value.value == 1 and idx is None:
            idx = n.target.id
    for n in ast.walk(node):
        if isinstance(n, ast.Call) and isinstance(n.func, ast.Attribute) and n.func.attr == 'append' and isinstance(n.func.value, ast.Name) \
                and acc is None:
            acc = n.func.value.id
        if isinstance(n, ast.Subscript) and isinstance(n.value, ast.Name) and isinstance(n.slice, ast.Name) and n.slice.id == idx and src is None:
            src = n.value.id
    return idx, acc, src, guard


def classify(node):
    """loop contract of rebuild_optimized_asm_block chosen by the shape of the loop"""
    if any(isinstance(n, (ast.For, ast.While)) and n is not node for n in ast.walk(node)):
        return None                                            # the loop over the sub-blocks: unrolled, or _OuterLoop (classify_any)
    idx, acc, src, guard = _roles(node)
    if idx is not None and acc is not None and src is not None:
        if isinstance(node, ast.While) and any(isinstance(n, ast.Compare) and isinstance(n.ops[0], ast.NotEq) for n in ast.walk(node.test)):
            return _CopyLoop('prefix', idx, acc, src, guard), 'copy-prefix'
        return _CopyLoop('kept' if isinstance(node, ast.For) else 'suffix', idx, acc, src, guard), 'copy-segment' if isinstance(node, ast.For) else 'copy-rest'
    if idx is not None and acc is None and isinstance(node, ast.For):
        return _SkipLoop(idx), 'skip-replaced-segment'
    # any other innermost loop is held to the frame contract: it changes no list of the function
    return _Frame(), 'no-structural-change'


class _CopyLoop(LoopSpec):
    """loops that copy items prev[idx0 + j] to the output while advancing the index (prefix loop, kept-segment loop, suffix loop)"""

    def __init__(self, kind, idx, acc, src, guard=None):
        self.kind, self.idx_name, self.acc_name, self.src_name, self.guard = kind, idx, acc, src, guard

    def enter(self, it, fr):
        self.it = it
        self.idx0 = sym._as_int_expr(fr.locals[self.idx_name])
        if isinstance(fr.locals[self.acc_name], list):
            # the accumulator starts as a concrete (empty) list: from here on it is a rope of slices of the lists it copies from
            fr.locals[self.acc_name] = Rope(ItemCodec(), [(z3.K(z3.IntSort(), x.e), z3.IntVal(0), z3.IntVal(1))
                                                          for x in fr.locals[self.acc_name]])
        self.out0 = list(fr.locals[self.acc_name].segs)

    def shape(self, fr, idx):
        prev = fr.locals[self.src_name]
        if self.guard is not None and not self.it.truth(self.it.eval(self.guard, fr)):
            return list(self.out0)            # the copy is switched off by a test the loop does not change: only the index advances
        return self.out0 + [(prev.arr, self.idx0, idx - self.idx0)]

    def havoc(self, it, fr, k):
        fr.locals[self.idx_name] = it.path.fresh_int('idx')
        # the invariant determines the accumulator from the index: out = out0 ++ prev[idx0:idx]
        fr.locals[self.acc_name].segs = self.shape(fr, sym._as_int_expr(fr.locals[self.idx_name]))
        _segment_hints(it, k)

    def inv(self, it, fr, k):
        idx = sym._as_int_expr(fr.locals[self.idx_name])
        out = fr.locals[self.acc_name]
        prev = fr.locals[self.src_name]
        cnt = idx - self.idx0
        c = [cnt >= 0, idx <= prev.n, out.equals(self.shape(fr, idx))]
        if k is not None:
            c.append(cnt == sym._as_int_expr(k))
        if self.kind == 'prefix':
            j = z3.Int('j!pre')
            first = it.cfg['subs'][0]
            self.noprint = lambda t, idx=idx, prev=prev, first=first: z3.Implies(z3.And(t >= self.idx0, t < idx),
                                                                                 to_plain_fn(prev.at(t)) != first.at(z3.IntVal(0)))
            c.append(z3.ForAll([j], self.noprint(j)))
        return z3.And(*c)

    def exit_hints(self, it, fr):
        if self.kind != 'prefix':
            return ()
        idx = sym._as_int_expr(fr.locals[self.idx_name])
        cfg = it.cfg
        # instance of the precondition at the exit index, instance of the invariant at PRE
        return (cfg['pre_noprint'](idx), self.noprint(cfg['P']))


class _Frame(LoopSpec):
    """loops that walk over a list without changing any list of the frame (restoration of the PUSHLIB operands)"""

    def enter(self, it, fr):
        self.ropes = dict((n, list(v.segs)) for n, v in fr.locals.items() if isinstance(v, Rope))
        self.lists = dict((n, (v.arr, v.n)) for n, v in fr.locals.items() if isinstance(v, SymList) and not isinstance(v, Rope))

    def havoc(self, it, fr, k):
        pass

    def inv(self, it, fr, k):
        c = [z3.BoolVal(True)]
        for n, segs in self.ropes.items():
            v = fr.locals.get(n)
            c.append(v.equals(segs) if isinstance(v, Rope) else z3.BoolVal(False))
        for n, (arr, ln) in self.lists.items():
            v = fr.locals.get(n)
            c.append(z3.And(v.n == ln, z3.BoolVal(v.arr.eq(arr))) if isinstance(v, SymList) else z3.BoolVal(False))
        return z3.And(*c)


class _SkipLoop(LoopSpec):
    """for disasm in considered_sub_block of a replaced sub-block: only the index advances"""

    def __init__(self, idx):
        self.idx_name = idx

    def enter(self, it, fr):
        self.idx0 = sym._as_int_expr(fr.locals[self.idx_name])
        self.frame = _Frame()
        self.frame.enter(it, fr)

    def havoc(self, it, fr, k):
        fr.locals[self.idx_name] = it.path.fresh_int('idx')
        _segment_hints(it, k)

    def inv(self, it, fr, k):
        idx = sym._as_int_expr(fr.locals[self.idx_name])
        return z3.And(idx == self.idx0 + sym._as_int_expr(k), self.frame.inv(it, fr, k))


class RebuildUnbounded(Case):
    prop = 'C14'
    tier = 'P'
    functions = (ofs.rebuild_optimized_asm_block,)
    native_cover = True
    stand_in = 'rebuild_optimized_asm_block(shapes)'     # the bounded case that decides the same clauses
    timeout_ms = 10000
    budget_s = 240          # quick tier; x8 in the thorough tier
    max_paths = 3000
    assumptions = ("the number of sub-blocks is enumerated (1..3); all lengths (prefix, sub-blocks, replacements, suffix) are symbolic",
                   "items are opaque values observed through to_plain(); deepcopy(item) is an equal item",
                   "precondition: the sub-block list is a splitting of the block in the matching relation asserted by the code")

    def __init__(self, nsub):
        self.nsub = nsub
        self.name = "rebuild_optimized_asm_block(unbounded,%d sub-blocks)" % nsub
        self.loops = {(QUAL, '*'): classify}
        # boundary seeds, always run on the real function: small lengths x every replacement pattern
        seeds = []
        for pre in (0, 2):
            for rest in (0, 1):
                for lens in itertools.product((1, 2, 3), repeat=nsub):
                    if any(lens[k] < 2 for k in range(nsub - 1)) or any(lens[k] < 2 for k in range(1, nsub)):
                        continue
                    cons = sum(lens[k] if k == 0 else lens[k] - 1 for k in range(nsub))
                    for choice in itertools.product((0, 1, 2), repeat=nsub):
                        for rl in ((0, 2) if 2 in choice else (0,)):
                            d = dict(len_prev=pre + cons + rest, PRE=pre)
                            for k in range(nsub):
                                d['len_S%d' % k] = lens[k]
                                d['replacement%d' % k] = choice[k]
                                d['len_R%d' % k] = rl
                            seeds.append(d)
        self.seeds = tuple(seeds)

    def run(self, H):
        if not H.symbolic:
            return self.run_concrete(H)
        n = self.nsub
        # the lengths are the named inputs of the case (a counter-model is replayed natively from them, see run_concrete)
        prev = SymList(ItemCodec(), n=sym._as_int_expr(H.int('len_prev', 0)), name='prev')
        subs = [SymList(StrCodec(), n=sym._as_int_expr(H.int('len_S%d' % k, 1)), name='S%d' % k) for k in range(n)]
        P = sym._as_int_expr(H.int('PRE', 0))
        H.assume(z3.And(P >= 0, P <= prev.n))
        cons_len = []
        offs = []
        off = P
        for k in range(n):
            H.assume(subs[k].n >= 1)                                   # a reported sub-block is never empty
            ln = subs[k].n if k == 0 else subs[k].n - 1
            cons_len.append(ln)
            offs.append(off)
            off = off + ln
        H.assume(off <= prev.n)
        j = z3.Int('j!pc')
        # prefix items do not print as the first entry of the first sub-block
        pre_noprint = lambda t: z3.Implies(z3.And(t >= 0, t < P), to_plain_fn(prev.at(t)) != subs[0].at(z3.IntVal(0)))
        H.assume(z3.ForAll([j], pre_noprint(j)))
        H.it.cfg = dict(pre_noprint=pre_noprint, P=P, seg_facts=(), subs=subs)
        H.assume(z3.Implies(P < prev.n, to_plain_fn(prev.at(P)) == subs[0].at(z3.IntVal(0))))
        seg_facts = []
        for k in range(n):
            shift = 0 if k == 0 else 1
            fact = lambda t, k=k, shift=shift: z3.Implies(z3.And(t >= 0, t < cons_len[k]),
                                                          z3.Contains(to_plain_fn(prev.at(offs[k] + t)), subs[k].at(t + shift)))
            seg_facts.append(fact)
            H.assume(z3.ForAll([j], fact(j)))
            if k > 0:
                H.assume(z3.Contains(to_plain_fn(prev.at(offs[k] - 1)), subs[k].at(z3.IntVal(0))))
                H.assume(cons_len[k - 1] >= 1)
        H.it.cfg['seg_facts'] = seg_facts
        mapping = {}
        repl = []
        for k in range(n):
            c = H.choice('replacement%d' % k, ['absent', 'none', 'list'])
            if c == 'none':
                mapping["b_%d" % k] = None
                repl.append(None)
            elif c == 'list':
                r = SymList(ItemCodec(), n=sym._as_int_expr(H.int('len_R%d' % k, 0)), name='R%d' % k)
                mapping["b_%d" % k] = r
                repl.append(r)
            else:
                repl.append(None)
        block = types.SimpleNamespace(block_name="b", instructions=prev)
        out = H.call(ofs.rebuild_optimized_asm_block, block, subs, mapping)
        H.check('raises-nothing-on-a-well-formed-splitting', out.ok, info=repr(out.exc))
        if not out.ok:
            return
        res = out.value.instructions
        # expected result as a list of segments (source array, first index, count), stated pointwise
        segs = [(prev.arr, z3.IntVal(0), P)]
        for k in range(n):
            if repl[k] is not None:
                segs.append((repl[k].arr, z3.IntVal(0), repl[k].n))
                if k < n - 1:
                    segs.append((prev.arr, offs[k] + cons_len[k] - 1, z3.IntVal(1)))
            else:
                segs.append((prev.arr, offs[k], cons_len[k]))
        segs.append((prev.arr, off, prev.n - off))
        H.check('result = prefix ++ (replacement | original segment)* ++ rest', Sym(res.equals(segs)))
        H.check('input-block-untouched', Sym(block.instructions.same_as(prev)))
        if all(r is None for r in repl):
            H.check('nothing-replaced=>identity', Sym(res.equals([(prev.arr, z3.IntVal(0), prev.n)])))

    def run_concrete(self, H):
        """the same contract on concrete lists of the lengths of a counter-model: item t of the block prints as "PUSH <t>", the
        sub-blocks carry exactly the printed names, replacements are fresh items"""
        from .c14 import I, mk_block
        n = self.nsub
        n_prev = H.int('len_prev', 0)
        lens = [H.int('len_S%d' % k, 1) for k in range(n)]
        P = H.int('PRE', 0)
        cons = [lens[k] if k == 0 else lens[k] - 1 for k in range(n)]
        offs = []
        off = P
        for k in range(n):
            offs.append(off)
            off += cons[k]
        H.assume(0 <= P <= n_prev and off <= n_prev and all(x >= 1 for x in lens) and all(cons[k - 1] >= 1 for k in range(1, n)))
        # models with hundreds of thousands of items are not replayed (a native run on them takes minutes and adds nothing)
        H.assume(n_prev <= 3000 and all(H.inputs.get('len_R%d' % k, 0) <= 3000 for k in range(n)))
        if H.assume_failed:
            return
        items = [I("PUSH", hex(t)[2:], t) for t in range(n_prev)]
        subs = []
        for k in range(n):
            names = [items[offs[k] + j].to_plain() for j in range(cons[k])]
            if k > 0:
                names = [items[offs[k] - 1].to_plain()] + names
            subs.append(names)
        mapping = {}
        repl = []
        for k in range(n):
            c = H.choice('replacement%d' % k, ['absent', 'none', 'list'])
            if c == 'none':
                mapping["b_%d" % k] = None
                repl.append(None)
            elif c == 'list':
                r = [I("POP", None, 1000 + 50 * k + j) for j in range(H.int('len_R%d' % k, 0))]
                mapping["b_%d" % k] = r
                repl.append(r)
            else:
                repl.append(None)
        block = mk_block(items, "b")
        out = H.call(ofs.rebuild_optimized_asm_block, block, [list(x) for x in subs], dict(mapping))
        H.check('raises-nothing-on-a-well-formed-splitting', out.ok, info=repr(out.exc))
        if not out.ok:
            return
        exp = items[:P]
        for k in range(n):
            if repl[k] is not None:
                exp = exp + repl[k] + ([items[offs[k] + cons[k] - 1]] if k < n - 1 else [])
            else:
                exp = exp + items[offs[k]:offs[k] + cons[k]]
        exp = exp + items[off:]
        got = out.value.instructions
        same = lambda a, b: len(a) == len(b) and all(x is y or (x == y and x.disasm == y.disasm) for x, y in zip(a, b))
        H.check('result = prefix ++ (replacement | original segment)* ++ rest', same(got, exp))
        H.check('input-block-untouched', same(block.instructions, items) and len(block.instructions) == n_prev)
        if all(r is None for r in repl):
            H.check('nothing-replaced=>identity', same(got, items))


# ---------------------------------------------------------------------------------------------------------------------------------
# any NUMBER of sub-blocks: the loop over the sub-blocks under a contract of its own
#
#   family of sub-blocks     S_k (k < n) : list of strings of length L_k >= 1           (arrays indexed by k)
#   own instructions         c_k = L_0 if k == 0 else L_k - 1,   o_0 = PRE,  o_(k+1) = o_k + c_k   (o uninterpreted, unfolded on demand)
#   replacements             by the key  block_name + "_" + str(k) : absent / None / list R_k      (uninterpreted functions of the key)
#   E_k  =  [prev[o_k - 1]  if k > 0 and sub-block k-1 was replaced]  ++  (R_k  if sub-block k is replaced  else  prev[o_k : o_k + c_k])
# Invariant of the outer loop at iteration k (ghosts: BC_k = what iterations 0..k-1 have appended, g_k = none of them replaced):
#   instr_idx = o_k,   out = prefix ++ BC_k,   previously_optimized = (k > 0 and replaced(k-1)),   g_k  =>  BC_k = prev[PRE : o_k]
# Preservation proves  BC_(k+1) = BC_k ++ E_k  and  g_(k+1) = g_k and not replaced(k) : by induction the result is
#   prev[:PRE] ++ E_0 ++ ... ++ E_(n-1) ++ prev[o_n:]   and the identity when nothing is replaced.

class Family(object):
    """list (of symbolic length) of lists of strings (of symbolic lengths)"""
    _pyvc_family = True

    def __init__(self, n, lens, arrs):
        self.n, self.lens, self.arrs = n, lens, arrs

    def length(self):
        return sym.wrap(self.n)

    def __getitem__(self, k):
        ke = z3.simplify(sym._as_int_expr(k))
        p = sym.cur()
        if not p.branch(z3.And(ke >= 0, ke < self.n)):
            raise IndexError("list index out of range")
        return SymList(StrCodec(), arr=z3.Select(self.arrs, ke), n=z3.Select(self.lens, ke), name='S')


class Replacements(object):
    """optimize_blocks_by_name: membership, None-ness and contents are uninterpreted functions of the key"""

    def __init__(self):
        S = z3.StringSort()
        self.has = z3.Function('repl_has', S, z3.BoolSort())
        self.none = z3.Function('repl_none', S, z3.BoolSort())
        self.arr = z3.Function('repl_arr', S, z3.ArraySort(z3.IntSort(), Item))
        self.len = z3.Function('repl_len', S, z3.IntSort())

    def _pyvc_contains(self, key):
        return Sym(self.has(z3.simplify(sym.lift(key))))

    def __getitem__(self, key):
        k = z3.simplify(sym.lift(key))
        p = sym.cur()
        if not p.branch(self.has(k)):
            raise KeyError(key)
        if p.branch(self.none(k)):
            return None
        p.assume(self.len(k) >= 0)
        return SymList(ItemCodec(), arr=self.arr(k), n=self.len(k), name='R')

    def replaced(self, k):
        return z3.And(self.has(k), z3.Not(self.none(k)))


class _OuterLoop(LoopSpec):
    def __init__(self, idx, acc, src, flag):
        self.idx_name, self.acc_name, self.src_name, self.flag_name = idx, acc, src, flag

    def enter(self, it, fr):
        self.out0 = list(fr.locals[self.acc_name].segs)
        self.ksym = None

    def key(self, it, k):
        return z3.simplify(z3.Concat(z3.StringVal("b_"), sym.int2str(z3.simplify(k))))

    def E(self, it, fr, k, po):
        c = it.cfg
        prev = fr.locals[self.src_name]
        rep = c['R'].replaced(self.key(it, k))
        o_k, c_k = c['o'](k), c['c'](k)
        return [(prev.arr, o_k - 1, z3.If(z3.And(k > 0, po), 1, 0)),
                (c['R'].arr(self.key(it, k)), z3.IntVal(0), z3.If(rep, c['R'].len(self.key(it, k)), 0)),
                (prev.arr, o_k, z3.If(rep, 0, c_k))], rep

    def havoc(self, it, fr, k):
        c = it.cfg
        ke = sym._as_int_expr(k)
        self.ksym = ke
        prev = fr.locals[self.src_name]
        fr.locals[self.idx_name] = sym.wrap(c['o'](ke))
        self.po = it.path.fresh_bool('previously_optimized').e
        fr.locals[self.flag_name] = Sym(self.po)
        it.path.assume(self.po == z3.And(ke > 0, c['R'].replaced(self.key(it, ke - 1))))
        self.g = it.path.fresh_bool('nothing_replaced_so_far').e
        it.path.assume(z3.Implies(ke == 0, self.g))
        it.path.assume(z3.Implies(self.g, z3.Not(self.po)))              # part of the invariant (proved again below)
        if it.path.branch(self.g):
            self.bc = [(prev.arr, c['P'], c['o'](ke) - c['P'])]          # g_k : the iterations so far copied prev[PRE : o_k]
        else:
            bc = SymList(ItemCodec(), name='BC')
            it.path.assume(z3.Implies(ke == 0, bc.n == 0))
            self.bc = [(bc.arr, z3.IntVal(0), bc.n)]
        fr.locals[self.acc_name].segs = self.out0 + self.bc
        it.cfg['cur_block'] = ke
        for f in c['block_facts']:                                       # instances of the precondition at sub-blocks k, k-1
            it.path.assume(f(ke))
            it.path.assume(f(ke - 1))

    def inv(self, it, fr, k):
        c = it.cfg
        ke = z3.simplify(sym._as_int_expr(k))
        idx = sym._as_int_expr(fr.locals[self.idx_name])
        out = fr.locals[self.acc_name]
        flag = fr.locals[self.flag_name]
        flag = sym.truth(flag).e if isinstance(flag, Sym) else z3.BoolVal(bool(flag))
        if self.ksym is None:
            # on entry (k = 0): nothing appended yet, the index stands at the first own instruction
            return z3.And(idx == c['o'](z3.IntVal(0)), z3.Not(flag), out.equals(self.out0))
        if z3.simplify(ke - self.ksym).eq(z3.IntVal(0)):
            return z3.BoolVal(True)                                      # the havocked state is the invariant at k by construction
        assert z3.simplify(ke - self.ksym).eq(z3.IntVal(1))
        k0 = self.ksym
        Ek, rep = self.E(it, fr, k0, self.po)
        g1 = z3.And(self.g, z3.Not(rep))
        step = out.equals(self.out0 + self.bc + Ek)
        # with g_(k+1) the accumulated part is again a slice of the block (the representation chosen at the next havoc)
        prev = fr.locals[self.src_name]
        if it.path.entails_ground(z3.Not(g1)):
            ident = z3.BoolVal(True)                                     # something has been replaced on this path
        else:
            ident = z3.Implies(g1, out.equals(self.out0 + [(prev.arr, c['P'], c['o'](ke) - c['P'])]))
        if it.cfg.get('debug'):
            it.path.prove('dbg:idx', idx == c['o'](ke)); it.path.prove('dbg:flag', flag == rep); it.path.prove('dbg:step', step); it.path.prove('dbg:ident', ident)
        return z3.And(idx == c['o'](ke), flag == rep, step, ident, z3.Implies(g1, z3.Not(flag)))

    def exit_hints(self, it, fr):
        it.cfg['outer_spec'] = self          # the ghosts BC_n, g_n of the exit state are what the postcondition talks about
        c = it.cfg
        last = self.ksym - 1                 # instances of the precondition at the last sub-block (k = n on exit)
        return tuple(f(last) for f in c['block_facts'])


def classify_any(node):
    got = classify(node)
    if got is not None:
        return got
    # the loop over the sub-blocks: roles from its body
    idx = acc = src = flag = None
    for n in ast.walk(node):
        if isinstance(n, ast.AugAssign) and isinstance(n.op, ast.Add) and isinstance(n.target, ast.Name) and idx is None:
            idx = n.target.id
        if isinstance(n, ast.Assign) and len(n.targets) == 1 and isinstance(n.targets[0], ast.Name) and isinstance(n.value, ast.Constant) \
                and isinstance(n.value.value, bool) and flag is None:
            flag = n.targets[0].id
    for n in ast.walk(node):
        if isinstance(n, ast.Call) and isinstance(n.func, ast.Attribute) and n.func.attr in ('append', 'extend') and isinstance(n.func.value, ast.Name) and acc is None:
            acc = n.func.value.id
        if isinstance(n, ast.Subscript) and isinstance(n.value, ast.Name) and isinstance(n.slice, ast.Name) and n.slice.id == idx and src is None:
            src = n.value.id
    if None in (idx, acc, src, flag):
        return None
    return _OuterLoop(idx, acc, src, flag), 'sub-blocks'


class RebuildAnyNumber(Case):
    prop = 'C14'
    tier = 'P'
    name = "rebuild_optimized_asm_block(unbounded, any number of sub-blocks)"
    functions = (ofs.rebuild_optimized_asm_block,)
    native_cover = False
    stand_in = 'rebuild_optimized_asm_block(shapes)'
    timeout_ms = 10000
    budget_s = 300
    max_paths = 3000
    assumptions = ("number and lengths of sub-blocks, prefix, replacements and suffix are all symbolic; the accumulated output of the "
                   "iterations before the current one is the ghost BC_k of the loop contract (defined by BC_0 = [], BC_(k+1) = BC_k ++ E_k)",
                   "items are opaque values observed through to_plain(); deepcopy(item) is an equal item",
                   "precondition: the sub-block list is a splitting of the block in the matching relation asserted by the code")
    loops = {(QUAL, '*'): classify_any}

    def run(self, H):
        if not H.symbolic:
            return
        n = sym._as_int_expr(H.int('n_sub_blocks', 1))
        prev = SymList(ItemCodec(), n=sym._as_int_expr(H.int('len_prev', 0)), name='prev')
        P = sym._as_int_expr(H.int('PRE', 0))
        lens = z3.Array(sym.cur()._name('L'), z3.IntSort(), z3.IntSort())
        arrs = z3.Array(sym.cur()._name('S'), z3.IntSort(), z3.ArraySort(z3.IntSort(), z3.StringSort()))
        fam = Family(n, lens, arrs)
        o = z3.Function('o', z3.IntSort(), z3.IntSort())
        cfun = lambda k: z3.If(k == 0, z3.Select(lens, k), z3.Select(lens, k) - 1)
        R = Replacements()
        j, kq = z3.Int('j!pc'), z3.Int('k!pc')
        S = lambda k, t: z3.Select(z3.Select(arrs, k), t)
        H.assume(z3.And(P >= 0, P <= prev.n, o(0) == P))
        pre_noprint = lambda t: z3.Implies(z3.And(t >= 0, t < P), to_plain_fn(prev.at(t)) != S(z3.IntVal(0), z3.IntVal(0)))
        H.assume(z3.ForAll([j], pre_noprint(j)))
        H.assume(z3.Implies(P < prev.n, to_plain_fn(prev.at(P)) == S(z3.IntVal(0), z3.IntVal(0))))
        # per sub-block facts (each is assumed under a quantifier over k and instantiated at the ghost index of the outer loop)
        inrange = lambda k: z3.And(k >= 0, k < n)
        f_len = lambda k: z3.Implies(inrange(k), z3.And(z3.Select(lens, k) >= 1, z3.Implies(k < n - 1, cfun(k) >= 1)))
        f_off = lambda k: z3.Implies(inrange(k), z3.And(o(k + 1) == o(k) + cfun(k), o(k) >= P, o(k + 1) <= prev.n))
        f_split = lambda k: z3.Implies(z3.And(inrange(k), k > 0), z3.Contains(to_plain_fn(prev.at(o(k) - 1)), S(k, z3.IntVal(0))))
        seg = lambda k, t: z3.Implies(z3.And(inrange(k), t >= 0, t < cfun(k)),
                                      z3.Contains(to_plain_fn(prev.at(o(k) + t)), S(k, t + z3.If(k == 0, 0, 1))))
        for f in (f_len, f_off, f_split):
            H.assume(z3.ForAll([kq], f(kq)))
        H.assume(z3.ForAll([kq, j], seg(kq, j)))
        H.assume(z3.And(f_len(z3.IntVal(0)), f_off(z3.IntVal(0))))
        cfgd = dict(debug=bool(__import__('os').environ.get('C14P_DEBUG')), pre_noprint=pre_noprint, P=P, subs=[fam_first(fam)], o=o, c=cfun, R=R, block_facts=(f_len, f_off, f_split), cur_block=None)
        cfgd['seg_facts'] = _CurrentBlockFacts(cfgd, seg)
        H.it.cfg = cfgd
        block = types.SimpleNamespace(block_name="b", instructions=prev)
        out = H.call(ofs.rebuild_optimized_asm_block, block, fam, R)
        H.check('raises-nothing-on-a-well-formed-splitting', out.ok, info=repr(out.exc))
        if not out.ok:
            return
        res = out.value.instructions
        H.check('input-block-untouched', Sym(block.instructions.same_as(prev)))
        outer = H.it.cfg.get('outer_spec')
        H.check('the-loop-over-the-sub-blocks-ran-under-its-contract', outer is not None)
        if outer is None:
            return
        o_n = o(n)
        H.check('result = prefix ++ BC_n ++ rest', Sym(res.equals([(prev.arr, z3.IntVal(0), P)] + outer.bc + [(prev.arr, o_n, prev.n - o_n)])))
        # g_n : no sub-block was replaced (the ghost of the loop contract) => identity
        H.check('nothing-replaced=>identity', Sym(z3.Implies(outer.g, res.equals([(prev.arr, z3.IntVal(0), prev.n)]))))


def fam_first(fam):
    class _First(object):
        def at(self, i):
            return z3.Select(z3.Select(fam.arrs, z3.IntVal(0)), i)
    return _First()


class _CurrentBlockFacts(object):
    """seg_facts of the inner loops: the segment fact of the sub-block the outer loop is at"""

    def __init__(self, cfg, seg):
        self.cfg, self.seg = cfg, seg

    def __iter__(self):
        k = self.cfg.get('cur_block')
        if k is None:
            return iter(())
        return iter([lambda t, k=k: self.seg(k, t)])


def cases(tier='quick'):
    return [RebuildUnbounded(n) for n in ((1, 2) if tier == "quick" else (1, 2, 3))] + [RebuildAnyNumber()], {}
