"""C14 / C09 - rebuild_optimized_asm_block under loop contracts: sub-blocks, prefix, suffix and replacements of ANY length.

The number of sub-blocks is enumerated (1..3, the spine of sub_block_list); everything else is symbolic:
  previous_instructions : list of opaque items of arbitrary length, observed through to_plain()
  each sub-block         : list of strings of arbitrary length
  each replacement       : absent / None / a list of items of arbitrary length
Precondition (S is a splitting of B, in the matching relation the code asserts):
  the first PRE items do not print as S[0][0]; item PRE+p contains S[0][p]; the own instructions of sub-block k+1 follow those of
  sub-block k, and its first entry is contained in the last item of sub-block k.
Postcondition: result = PRE-items ++ E_0 ++ ... ++ E_n-1 ++ remaining items, where E_k is the replacement (followed by the shared
  split item when k is not the last sub-block) if sub-block k is replaced, and the original items of the segment otherwise.
"""
import types
import z3

from pyvc import sym
from pyvc.sym import Sym, sand, implies
from pyvc.harness import Case
from pyvc.symlist import SymList, Rope, StrCodec, LoopSpec
from . import common  # noqa
import solution_generation.optimize_from_sub_blocks as ofs

Item = z3.DeclareSort('Item')
to_plain_fn = z3.Function('to_plain', Item, z3.StringSort())
QUAL = 'solution_generation.optimize_from_sub_blocks.rebuild_optimized_asm_block'


disasm_fn = z3.Function('disasm', Item, z3.StringSort())
value_fn = z3.Function('value', Item, sym.Val)


class ItemProxy(object):
    def __init__(self, e):
        self.e = e
        self.disasm = Sym(disasm_fn(e))
        self.value = Sym(value_fn(e))
        self.real_value = None          # assignments to real_value do not change which item it is

    def to_plain(self):
        return Sym(to_plain_fn(self.e))

    def __deepcopy__(self, memo):
        return self

    def __eq__(self, o):
        return Sym(self.e == o.e) if isinstance(o, ItemProxy) else False

    __hash__ = None


class ItemCodec(object):
    sort = Item

    def to_z3(self, x):
        return x.e

    def from_z3(self, e):
        return ItemProxy(e)


def _segment_hints(it, k):
    """instances, at the ghost iteration index, of the (universally quantified) precondition that relates the entries of each
    sub-block to the items of the block: spares the solver an instantiation modulo arithmetic"""
    if k is None:
        return
    for fact in it.cfg['seg_facts']:
        it.path.assume(fact(sym._as_int_expr(k)))


class _CopyLoop(LoopSpec):
    """loops that copy items prev[idx0 + j] to the output while advancing instr_idx (prefix loop, kept-segment loop, suffix loop)"""

    def __init__(self, kind):
        self.kind = kind

    def enter(self, it, fr):
        self.idx0 = sym._as_int_expr(fr.locals['instr_idx'])
        if isinstance(fr.locals['optimized_instructions'], list):
            # the accumulator starts as a concrete (empty) list: from here on it is a rope of slices of the lists it copies from
            fr.locals['optimized_instructions'] = Rope(ItemCodec(), [(z3.K(z3.IntSort(), x.e), z3.IntVal(0), z3.IntVal(1))
                                                                     for x in fr.locals['optimized_instructions']])
        self.out0 = list(fr.locals['optimized_instructions'].segs)

    def shape(self, fr, idx):
        prev = fr.locals['previous_instructions']
        return self.out0 + [(prev.arr, self.idx0, idx - self.idx0)]

    def havoc(self, it, fr, k):
        fr.locals['instr_idx'] = it.path.fresh_int('idx')
        # the invariant determines the accumulator from instr_idx: out = out0 ++ prev[idx0:idx]
        fr.locals['optimized_instructions'].segs = self.shape(fr, sym._as_int_expr(fr.locals['instr_idx']))
        _segment_hints(it, k)

    def inv(self, it, fr, k):
        idx = sym._as_int_expr(fr.locals['instr_idx'])
        out = fr.locals['optimized_instructions']
        prev = fr.locals['previous_instructions']
        cnt = idx - self.idx0
        c = [cnt >= 0, idx <= prev.n, out.equals(self.shape(fr, idx))]
        if k is not None:
            c.append(cnt == sym._as_int_expr(k))
        if self.kind == 'prefix':
            j = z3.Int('j!pre')
            first = fr.locals['sub_block_list'][0]
            self.noprint = lambda t, idx=idx, prev=prev, first=first: z3.Implies(z3.And(t >= self.idx0, t < idx),
                                                                                 to_plain_fn(prev.at(t)) != first.at(z3.IntVal(0)))
            c.append(z3.ForAll([j], self.noprint(j)))
        return z3.And(*c)

    def exit_hints(self, it, fr):
        if self.kind != 'prefix':
            return ()
        idx = sym._as_int_expr(fr.locals['instr_idx'])
        cfg = it.cfg
        # instance of the precondition at the exit index, instance of the invariant at PRE
        return (cfg['pre_noprint'](idx), self.noprint(cfg['P']))


class _NoStructuralChange(LoopSpec):
    """for instr in optimized_instructions (restoration of PUSHLIB operands): the list structure is not modified"""

    def havoc(self, it, fr, k):
        pass

    def inv(self, it, fr, k):
        return z3.BoolVal(True)


class _SkipLoop(LoopSpec):
    """for disasm in considered_sub_block of a replaced sub-block: only instr_idx advances"""

    def enter(self, it, fr):
        self.idx0 = sym._as_int_expr(fr.locals['instr_idx'])

    def havoc(self, it, fr, k):
        fr.locals['instr_idx'] = it.path.fresh_int('idx')
        _segment_hints(it, k)

    def inv(self, it, fr, k):
        idx = sym._as_int_expr(fr.locals['instr_idx'])
        return idx == self.idx0 + sym._as_int_expr(k)


class RebuildUnbounded(Case):
    prop = 'C14'
    tier = 'P'
    functions = (ofs.rebuild_optimized_asm_block,)
    native_cover = True
    timeout_ms = 30000
    max_paths = 3000
    assumptions = ("the number of sub-blocks is enumerated (1..3); all lengths (prefix, sub-blocks, replacements, suffix) are symbolic",
                   "items are opaque values observed through to_plain(); deepcopy(item) is an equal item",
                   "precondition: the sub-block list is a splitting of the block in the matching relation asserted by the code")

    def __init__(self, nsub):
        self.nsub = nsub
        self.name = "rebuild_optimized_asm_block(unbounded,%d sub-blocks)" % nsub
        self.loops = {(QUAL, 0): _CopyLoop('prefix'), (QUAL, 2): _SkipLoop(), (QUAL, 3): _CopyLoop('kept'), (QUAL, 4): _CopyLoop('suffix'),
                      (QUAL, 5): _NoStructuralChange()}

    def run(self, H):
        if not H.symbolic:
            return self.run_concrete(H)
        n = self.nsub
        # the lengths are the named inputs of the case (a counter-model is replayed natively from them, see run_concrete)
        prev = SymList(ItemCodec(), n=sym._as_int_expr(H.int('len_prev', 0)), name='prev')
        subs = [SymList(StrCodec(), n=sym._as_int_expr(H.int('len_S%d' % k, 1)), name='S%d' % k) for k in range(n)]
        P = sym._as_int_expr(H.int('PRE', 0))
        H.assume(z3.And(P >= 0, P <= prev.n))
        cons_len = []
        offs = []
        off = P
        for k in range(n):
            H.assume(subs[k].n >= 1)                                   # a reported sub-block is never empty
            ln = subs[k].n if k == 0 else subs[k].n - 1
            cons_len.append(ln)
            offs.append(off)
            off = off + ln
        H.assume(off <= prev.n)
        j = z3.Int('j!pc')
        # prefix items do not print as the first entry of the first sub-block
        pre_noprint = lambda t: z3.Implies(z3.And(t >= 0, t < P), to_plain_fn(prev.at(t)) != subs[0].at(z3.IntVal(0)))
        H.assume(z3.ForAll([j], pre_noprint(j)))
        H.it.cfg = dict(pre_noprint=pre_noprint, P=P, seg_facts=())
        H.assume(z3.Implies(P < prev.n, to_plain_fn(prev.at(P)) == subs[0].at(z3.IntVal(0))))
        seg_facts = []
        for k in range(n):
            shift = 0 if k == 0 else 1
            fact = lambda t, k=k, shift=shift: z3.Implies(z3.And(t >= 0, t < cons_len[k]),
                                                          z3.Contains(to_plain_fn(prev.at(offs[k] + t)), subs[k].at(t + shift)))
            seg_facts.append(fact)
            H.assume(z3.ForAll([j], fact(j)))
            if k > 0:
                H.assume(z3.Contains(to_plain_fn(prev.at(offs[k] - 1)), subs[k].at(z3.IntVal(0))))
                H.assume(cons_len[k - 1] >= 1)
        H.it.cfg['seg_facts'] = seg_facts
        mapping = {}
        repl = []
        for k in range(n):
            c = H.choice('replacement%d' % k, ['absent', 'none', 'list'])
            if c == 'none':
                mapping["b_%d" % k] = None
                repl.append(None)
            elif c == 'list':
                r = SymList(ItemCodec(), n=sym._as_int_expr(H.int('len_R%d' % k, 0)), name='R%d' % k)
                mapping["b_%d" % k] = r
                repl.append(r)
            else:
                repl.append(None)
        block = types.SimpleNamespace(block_name="b", instructions=prev)
        out = H.call(ofs.rebuild_optimized_asm_block, block, subs, mapping)
        H.check('raises-nothing-on-a-well-formed-splitting', out.ok, info=repr(out.exc))
        if not out.ok:
            return
        res = out.value.instructions
        # expected result as a list of segments (source array, first index, count), stated pointwise
        segs = [(prev.arr, z3.IntVal(0), P)]
        for k in range(n):
            if repl[k] is not None:
                segs.append((repl[k].arr, z3.IntVal(0), repl[k].n))
                if k < n - 1:
                    segs.append((prev.arr, offs[k] + cons_len[k] - 1, z3.IntVal(1)))
            else:
                segs.append((prev.arr, offs[k], cons_len[k]))
        segs.append((prev.arr, off, prev.n - off))
        H.check('result = prefix ++ (replacement | original segment)* ++ rest', Sym(res.equals(segs)))
        H.check('input-block-untouched', Sym(block.instructions.same_as(prev)))
        if all(r is None for r in repl):
            H.check('nothing-replaced=>identity', Sym(res.equals([(prev.arr, z3.IntVal(0), prev.n)])))

    def run_concrete(self, H):
        """the same contract on concrete lists of the lengths of a counter-model: item t of the block prints as "PUSH <t>", the
        sub-blocks carry exactly the printed names, replacements are fresh items"""
        from .c14 import I, mk_block
        n = self.nsub
        n_prev = H.int('len_prev', 0)
        lens = [H.int('len_S%d' % k, 1) for k in range(n)]
        P = H.int('PRE', 0)
        cons = [lens[k] if k == 0 else lens[k] - 1 for k in range(n)]
        offs = []
        off = P
        for k in range(n):
            offs.append(off)
            off += cons[k]
        H.assume(0 <= P <= n_prev and off <= n_prev and all(x >= 1 for x in lens) and all(cons[k - 1] >= 1 for k in range(1, n)))
        if H.assume_failed:
            return
        items = [I("PUSH", hex(t)[2:], t) for t in range(n_prev)]
        subs = []
        for k in range(n):
            names = [items[offs[k] + j].to_plain() for j in range(cons[k])]
            if k > 0:
                names = [items[offs[k] - 1].to_plain()] + names
            subs.append(names)
        mapping = {}
        repl = []
        for k in range(n):
            c = H.choice('replacement%d' % k, ['absent', 'none', 'list'])
            if c == 'none':
                mapping["b_%d" % k] = None
                repl.append(None)
            elif c == 'list':
                r = [I("POP", None, 1000 + 50 * k + j) for j in range(H.int('len_R%d' % k, 0))]
                mapping["b_%d" % k] = r
                repl.append(r)
            else:
                repl.append(None)
        block = mk_block(items, "b")
        out = H.call(ofs.rebuild_optimized_asm_block, block, [list(x) for x in subs], dict(mapping))
        H.check('raises-nothing-on-a-well-formed-splitting', out.ok, info=repr(out.exc))
        if not out.ok:
            return
        exp = items[:P]
        for k in range(n):
            if repl[k] is not None:
                exp = exp + repl[k] + ([items[offs[k] + cons[k] - 1]] if k < n - 1 else [])
            else:
                exp = exp + items[offs[k]:offs[k] + cons[k]]
        exp = exp + items[off:]
        got = out.value.instructions
        same = lambda a, b: len(a) == len(b) and all(x is y or (x == y and x.disasm == y.disasm) for x, y in zip(a, b))
        H.check('result = prefix ++ (replacement | original segment)* ++ rest', same(got, exp))
        H.check('input-block-untouched', same(block.instructions, items) and len(block.instructions) == n_prev)
        if all(r is None for r in repl):
            H.check('nothing-replaced=>identity', same(got, items))


def cases(tier='quick'):
    return [RebuildUnbounded(n) for n in ((1, 2) if tier == "quick" else (1, 2, 3))], {}
