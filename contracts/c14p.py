"""C14 / C09 - rebuild_optimized_asm_block under loop contracts: sub-blocks, prefix, suffix and replacements of ANY length.

The number of sub-blocks is enumerated (1..3, the spine of sub_block_list); everything else is symbolic:
  previous_instructions : list of opaque items of arbitrary length, observed through to_plain()
  each sub-block         : list of strings of arbitrary length
  each replacement       : absent / None / a list of items of arbitrary length
Precondition (S is a splitting of B, in the matching relation the code asserts):
  the first PRE items do not print as S[0][0]; item PRE+p contains S[0][p]; the own instructions of sub-block k+1 follow those of
  sub-block k, and its first entry is contained in the last item of sub-block k.
Postcondition: result = PRE-items ++ E_0 ++ ... ++ E_n-1 ++ remaining items, where E_k is the replacement (followed by the shared
  split item when k is not the last sub-block) if sub-block k is replaced, and the original items of the segment otherwise.
"""
import ast
import itertools
import types
import z3

from pyvc import sym
from pyvc.sym import Sym, sand, implies
from pyvc.harness import Case
from pyvc.symlist import SymList, Rope, StrCodec, LoopSpec
from . import common  # noqa
import solution_generation.optimize_from_sub_blocks as ofs

Item = z3.DeclareSort('Item')
to_plain_fn = z3.Function('to_plain', Item, z3.StringSort())
QUAL = 'solution_generation.optimize_from_sub_blocks.rebuild_optimized_asm_block'


disasm_fn = z3.Function('disasm', Item, z3.StringSort())
value_fn = z3.Function('value', Item, sym.Val)


class ItemProxy(object):
    def __init__(self, e):
        self.e = e
        self.disasm = Sym(disasm_fn(e))
        self.value = Sym(value_fn(e))
        self.real_value = None          # assignments to real_value do not change which item it is

    def to_plain(self):
        return Sym(to_plain_fn(self.e))

    def __deepcopy__(self, memo):
        return self

    def __eq__(self, o):
        return Sym(self.e == o.e) if isinstance(o, ItemProxy) else False

    __hash__ = None


class ItemCodec(object):
    sort = Item

    def to_z3(self, x):
        return x.e

    def from_z3(self, e):
        return ItemProxy(e)


def _segment_hints(it, k):
    """instances, at the ghost iteration index, of the (universally quantified) precondition that relates the entries of each
    sub-block to the items of the block: spares the solver an instantiation modulo arithmetic"""
    if k is None:
        return
    for fact in it.cfg['seg_facts']:
        it.path.assume(fact(sym._as_int_expr(k)))


def _roles(node):
    """roles of the names in a loop of the function, read off its syntax (so that renamed locals keep their contract):
    idx  = the name advanced by `+= 1`            acc = the name whose .append is called
    src  = the name subscripted by idx"""
    idx = acc = src = guard = None
    for st in node.body:
        # an append guarded by a test that the loop does not change:  if <guard>: acc.append(...)
        if isinstance(st, ast.If) and not st.orelse and any(isinstance(c, ast.Call) and isinstance(c.func, ast.Attribute) and c.func.attr == 'append'
                                                             for c in ast.walk(st)):
            assigned = set(t.id for n in ast.walk(node) for t in (getattr(n, 'targets', None) or [getattr(n, 'target', None)])
                           if isinstance(t, ast.Name))
            if not any(isinstance(n, ast.Name) and n.id in assigned for n in ast.walk(st.test)) \
                    and not any(isinstance(n, ast.Call) for n in ast.walk(st.test)):
                guard = st.test
    for n in ast.walk(node):
        if isinstance(n, ast.AugAssign) and isinstance(n.op, ast.Add) and isinstance(n.target, ast.Name) \
                and isinstance(n.value, ast.Constant) and n.value.value == 1 and idx is None:
            idx = n.target.id
    for n in ast.walk(node):
        if isinstance(n, ast.Call) and isinstance(n.func, ast.Attribute) and n.func.attr == 'append' and isinstance(n.func.value, ast.Name) \
                and acc is None:
            acc = n.func.value.id
        if isinstance(n, ast.Subscript) and isinstance(n.value, ast.Name) and isinstance(n.slice, ast.Name) and n.slice.id == idx and src is None:
            src = n.value.id
    return idx, acc, src, guard


def classify(node):
    """loop contract of rebuild_optimized_asm_block chosen by the shape of the loop"""
    if any(isinstance(n, (ast.For, ast.While)) and n is not node for n in ast.walk(node)):
        return None                                            # the loop over the sub-blocks is unrolled (their number is enumerated)
    idx, acc, src, guard = _roles(node)
    if idx is not None and acc is not None and src is not None:
        if isinstance(node, ast.While) and any(isinstance(n, ast.Compare) and isinstance(n.ops[0], ast.NotEq) for n in ast.walk(node.test)):
            return _CopyLoop('prefix', idx, acc, src, guard), 'copy-prefix'
        return _CopyLoop('kept' if isinstance(node, ast.For) else 'suffix', idx, acc, src, guard), 'copy-segment' if isinstance(node, ast.For) else 'copy-rest'
    if idx is not None and acc is None and isinstance(node, ast.For):
        return _SkipLoop(idx), 'skip-replaced-segment'
    # any other innermost loop is held to the frame contract: it changes no list of the function
    return _Frame(), 'no-structural-change'


class _CopyLoop(LoopSpec):
    """loops that copy items prev[idx0 + j] to the output while advancing the index (prefix loop, kept-segment loop, suffix loop)"""

    def __init__(self, kind, idx, acc, src, guard=None):
        self.kind, self.idx_name, self.acc_name, self.src_name, self.guard = kind, idx, acc, src, guard

    def enter(self, it, fr):
        self.it = it
        self.idx0 = sym._as_int_expr(fr.locals[self.idx_name])
        if isinstance(fr.locals[self.acc_name], list):
            # the accumulator starts as a concrete (empty) list: from here on it is a rope of slices of the lists it copies from
            fr.locals[self.acc_name] = Rope(ItemCodec(), [(z3.K(z3.IntSort(), x.e), z3.IntVal(0), z3.IntVal(1))
                                                          for x in fr.locals[self.acc_name]])
        self.out0 = list(fr.locals[self.acc_name].segs)

    def shape(self, fr, idx):
        prev = fr.locals[self.src_name]
        if self.guard is not None and not self.it.truth(self.it.eval(self.guard, fr)):
            return list(self.out0)            # the copy is switched off by a test the loop does not change: only the index advances
        return self.out0 + [(prev.arr, self.idx0, idx - self.idx0)]

    def havoc(self, it, fr, k):
        fr.locals[self.idx_name] = it.path.fresh_int('idx')
        # the invariant determines the accumulator from the index: out = out0 ++ prev[idx0:idx]
        fr.locals[self.acc_name].segs = self.shape(fr, sym._as_int_expr(fr.locals[self.idx_name]))
        _segment_hints(it, k)

    def inv(self, it, fr, k):
        idx = sym._as_int_expr(fr.locals[self.idx_name])
        out = fr.locals[self.acc_name]
        prev = fr.locals[self.src_name]
        cnt = idx - self.idx0
        c = [cnt >= 0, idx <= prev.n, out.equals(self.shape(fr, idx))]
        if k is not None:
            c.append(cnt == sym._as_int_expr(k))
        if self.kind == 'prefix':
            j = z3.Int('j!pre')
            first = it.cfg['subs'][0]
            self.noprint = lambda t, idx=idx, prev=prev, first=first: z3.Implies(z3.And(t >= self.idx0, t < idx),
                                                                                 to_plain_fn(prev.at(t)) != first.at(z3.IntVal(0)))
            c.append(z3.ForAll([j], self.noprint(j)))
        return z3.And(*c)

    def exit_hints(self, it, fr):
        if self.kind != 'prefix':
            return ()
        idx = sym._as_int_expr(fr.locals[self.idx_name])
        cfg = it.cfg
        # instance of the precondition at the exit index, instance of the invariant at PRE
        return (cfg['pre_noprint'](idx), self.noprint(cfg['P']))


class _Frame(LoopSpec):
    """loops that walk over a list without changing any list of the frame (restoration of the PUSHLIB operands)"""

    def enter(self, it, fr):
        self.ropes = dict((n, list(v.segs)) for n, v in fr.locals.items() if isinstance(v, Rope))
        self.lists = dict((n, (v.arr, v.n)) for n, v in fr.locals.items() if isinstance(v, SymList) and not isinstance(v, Rope))

    def havoc(self, it, fr, k):
        pass

    def inv(self, it, fr, k):
        c = [z3.BoolVal(True)]
        for n, segs in self.ropes.items():
            v = fr.locals.get(n)
            c.append(v.equals(segs) if isinstance(v, Rope) else z3.BoolVal(False))
        for n, (arr, ln) in self.lists.items():
            v = fr.locals.get(n)
            c.append(z3.And(v.n == ln, z3.BoolVal(v.arr.eq(arr))) if isinstance(v, SymList) else z3.BoolVal(False))
        return z3.And(*c)


class _SkipLoop(LoopSpec):
    """for disasm in considered_sub_block of a replaced sub-block: only the index advances"""

    def __init__(self, idx):
        self.idx_name = idx

    def enter(self, it, fr):
        self.idx0 = sym._as_int_expr(fr.locals[self.idx_name])
        self.frame = _Frame()
        self.frame.enter(it, fr)

    def havoc(self, it, fr, k):
        fr.locals[self.idx_name] = it.path.fresh_int('idx')
        _segment_hints(it, k)

    def inv(self, it, fr, k):
        idx = sym._as_int_expr(fr.locals[self.idx_name])
        return z3.And(idx == self.idx0 + sym._as_int_expr(k), self.frame.inv(it, fr, k))


class RebuildUnbounded(Case):
    prop = 'C14'
    tier = 'P'
    functions = (ofs.rebuild_optimized_asm_block,)
    native_cover = True
    stand_in = 'rebuild_optimized_asm_block(shapes)'     # the bounded case that decides the same clauses
    timeout_ms = 10000
    budget_s = 240          # quick tier; x8 in the thorough tier
    max_paths = 3000
    assumptions = ("the number of sub-blocks is enumerated (1..3); all lengths (prefix, sub-blocks, replacements, suffix) are symbolic",
                   "items are opaque values observed through to_plain(); deepcopy(item) is an equal item",
                   "precondition: the sub-block list is a splitting of the block in the matching relation asserted by the code")

    def __init__(self, nsub):
        self.nsub = nsub
        self.name = "rebuild_optimized_asm_block(unbounded,%d sub-blocks)" % nsub
        self.loops = {(QUAL, '*'): classify}
        # boundary seeds, always run on the real function: small lengths x every replacement pattern
        seeds = []
        for pre in (0, 2):
            for rest in (0, 1):
                for lens in itertools.product((1, 2, 3), repeat=nsub):
                    if any(lens[k] < 2 for k in range(nsub - 1)) or any(lens[k] < 2 for k in range(1, nsub)):
                        continue
                    cons = sum(lens[k] if k == 0 else lens[k] - 1 for k in range(nsub))
                    for choice in itertools.product((0, 1, 2), repeat=nsub):
                        for rl in ((0, 2) if 2 in choice else (0,)):
                            d = dict(len_prev=pre + cons + rest, PRE=pre)
                            for k in range(nsub):
                                d['len_S%d' % k] = lens[k]
                                d['replacement%d' % k] = choice[k]
                                d['len_R%d' % k] = rl
                            seeds.append(d)
        self.seeds = tuple(seeds)

    def run(self, H):
        if not H.symbolic:
            return self.run_concrete(H)
        n = self.nsub
        # the lengths are the named inputs of the case (a counter-model is replayed natively from them, see run_concrete)
        prev = SymList(ItemCodec(), n=sym._as_int_expr(H.int('len_prev', 0)), name='prev')
        subs = [SymList(StrCodec(), n=sym._as_int_expr(H.int('len_S%d' % k, 1)), name='S%d' % k) for k in range(n)]
        P = sym._as_int_expr(H.int('PRE', 0))
        H.assume(z3.And(P >= 0, P <= prev.n))
        cons_len = []
        offs = []
        off = P
        for k in range(n):
            H.assume(subs[k].n >= 1)                                   # a reported sub-block is never empty
            ln = subs[k].n if k == 0 else subs[k].n - 1
            cons_len.append(ln)
            offs.append(off)
            off = off + ln
        H.assume(off <= prev.n)
        j = z3.Int('j!pc')
        # prefix items do not print as the first entry of the first sub-block
        pre_noprint = lambda t: z3.Implies(z3.And(t >= 0, t < P), to_plain_fn(prev.at(t)) != subs[0].at(z3.IntVal(0)))
        H.assume(z3.ForAll([j], pre_noprint(j)))
        H.it.cfg = dict(pre_noprint=pre_noprint, P=P, seg_facts=(), subs=subs)
        H.assume(z3.Implies(P < prev.n, to_plain_fn(prev.at(P)) == subs[0].at(z3.IntVal(0))))
        seg_facts = []
        for k in range(n):
            shift = 0 if k == 0 else 1
            fact = lambda t, k=k, shift=shift: z3.Implies(z3.And(t >= 0, t < cons_len[k]),
                                                          z3.Contains(to_plain_fn(prev.at(offs[k] + t)), subs[k].at(t + shift)))
            seg_facts.append(fact)
            H.assume(z3.ForAll([j], fact(j)))
            if k > 0:
                H.assume(z3.Contains(to_plain_fn(prev.at(offs[k] - 1)), subs[k].at(z3.IntVal(0))))
                H.assume(cons_len[k - 1] >= 1)
        H.it.cfg['seg_facts'] = seg_facts
        mapping = {}
        repl = []
        for k in range(n):
            c = H.choice('replacement%d' % k, ['absent', 'none', 'list'])
            if c == 'none':
                mapping["b_%d" % k] = None
                repl.append(None)
            elif c == 'list':
                r = SymList(ItemCodec(), n=sym._as_int_expr(H.int('len_R%d' % k, 0)), name='R%d' % k)
                mapping["b_%d" % k] = r
                repl.append(r)
            else:
                repl.append(None)
        block = types.SimpleNamespace(block_name="b", instructions=prev)
        out = H.call(ofs.rebuild_optimized_asm_block, block, subs, mapping)
        H.check('raises-nothing-on-a-well-formed-splitting', out.ok, info=repr(out.exc))
        if not out.ok:
            return
        res = out.value.instructions
        # expected result as a list of segments (source array, first index, count), stated pointwise
        segs = [(prev.arr, z3.IntVal(0), P)]
        for k in range(n):
            if repl[k] is not None:
                segs.append((repl[k].arr, z3.IntVal(0), repl[k].n))
                if k < n - 1:
                    segs.append((prev.arr, offs[k] + cons_len[k] - 1, z3.IntVal(1)))
            else:
                segs.append((prev.arr, offs[k], cons_len[k]))
        segs.append((prev.arr, off, prev.n - off))
        H.check('result = prefix ++ (replacement | original segment)* ++ rest', Sym(res.equals(segs)))
        H.check('input-block-untouched', Sym(block.instructions.same_as(prev)))
        if all(r is None for r in repl):
            H.check('nothing-replaced=>identity', Sym(res.equals([(prev.arr, z3.IntVal(0), prev.n)])))

    def run_concrete(self, H):
        """the same contract on concrete lists of the lengths of a counter-model: item t of the block prints as "PUSH <t>", the
        sub-blocks carry exactly the printed names, replacements are fresh items"""
        from .c14 import I, mk_block
        n = self.nsub
        n_prev = H.int('len_prev', 0)
        lens = [H.int('len_S%d' % k, 1) for k in range(n)]
        P = H.int('PRE', 0)
        cons = [lens[k] if k == 0 else lens[k] - 1 for k in range(n)]
        offs = []
        off = P
        for k in range(n):
            offs.append(off)
            off += cons[k]
        H.assume(0 <= P <= n_prev and off <= n_prev and all(x >= 1 for x in lens) and all(cons[k - 1] >= 1 for k in range(1, n)))
        if H.assume_failed:
            return
        items = [I("PUSH", hex(t)[2:], t) for t in range(n_prev)]
        subs = []
        for k in range(n):
            names = [items[offs[k] + j].to_plain() for j in range(cons[k])]
            if k > 0:
                names = [items[offs[k] - 1].to_plain()] + names
            subs.append(names)
        mapping = {}
        repl = []
        for k in range(n):
            c = H.choice('replacement%d' % k, ['absent', 'none', 'list'])
            if c == 'none':
                mapping["b_%d" % k] = None
                repl.append(None)
            elif c == 'list':
                r = [I("POP", None, 1000 + 50 * k + j) for j in range(H.int('len_R%d' % k, 0))]
                mapping["b_%d" % k] = r
                repl.append(r)
            else:
                repl.append(None)
        block = mk_block(items, "b")
        out = H.call(ofs.rebuild_optimized_asm_block, block, [list(x) for x in subs], dict(mapping))
        H.check('raises-nothing-on-a-well-formed-splitting', out.ok, info=repr(out.exc))
        if not out.ok:
            return
        exp = items[:P]
        for k in range(n):
            if repl[k] is not None:
                exp = exp + repl[k] + ([items[offs[k] + cons[k] - 1]] if k < n - 1 else [])
            else:
                exp = exp + items[offs[k]:offs[k] + cons[k]]
        exp = exp + items[off:]
        got = out.value.instructions
        same = lambda a, b: len(a) == len(b) and all(x is y or (x == y and x.disasm == y.disasm) for x, y in zip(a, b))
        H.check('result = prefix ++ (replacement | original segment)* ++ rest', same(got, exp))
        H.check('input-block-untouched', same(block.instructions, items) and len(block.instructions) == n_prev)
        if all(r is None for r in repl):
            H.check('nothing-replaced=>identity', same(got, items))


def cases(tier='quick'):
    return [RebuildUnbounded(n) for n in ((1, 2) if tier == "quick" else (1, 2, 3))], {}
