"""C13 - specification generation and greedy search are deterministic.

Tier E: purity obligations discharged by the scan of frames/purity.py on the real ASTs: inside everything reachable from the
per-block entry points, every call of a run-dependent source (clock, hash(), id(), uuid, pid, directory listings, resource
usage) and every order-sensitive consumption of a set-typed value is a reviewed site with a stated reason why it cannot reach a
result; a new site fails.  Tier B: the same inputs under different PYTHONHASHSEED values / processes give identical
specifications, greedy sequences and emitted files.
"""
import ast
import json
import os

from pyvc.harness import NativeCase
from frames.effects import Analysis
from frames import purity
from .common import REPO
from .c12 import MODS, ENTRIES, run_child

EXTRA_ENTRIES = [('smt_encoding.json_with_dependencies', 'extended_json_with_minlength'),
                 ('smt_encoding.json_with_dependencies', 'extended_json_with_instr_dep_and_bounds'),
                 ('gasol_asm', 'optimize_asm_contract'), ('gasol_asm', 'optimize_isolated_asm_block')]

# (function, normalized source prefix) -> reason
REVIEWED_NONDET = {
    ('greedy_standalone', 'resource.getrusage('): "CPU time statistic returned as solver_time; goes to the statistics CSV only",
    ('generate_json', 'os.listdir(paths.gasol_path)'): "membership test for the jsons directory (creates it if missing); the listing order is not used",
    ('write_instruction_block', 'os.listdir(paths.gasol_path)'): "membership test for the scratch directory; order not used",
    ('write_rbr', 'os.listdir(paths.tmp_path)'): "membership test for the scratch directory; order not used",
    ('smt_translate_block', 'dtimer()'): "timing of the translation, not stored in the specification",
    ('evm2rbr_compiler', 'dtimer()'): "timing of the RBR construction, local variables only",
    ('execute_gasol', 'dtimer()'): "total time printed at the end",
}
# (function, source prefix of the test) -> a test on a clock value that is reviewed as harmless
REVIEWED_CLOCK_TESTS = {}

REVIEWED_SETITER = {
    # F23: two sites of this table were wrongly accepted at first ("a sum over the elements", "checked by the replay") although
    # the summed function reads and updates a visited-map; they were real (hash-seed dependent bounds) and are repaired in /repo.
    # A site is accepted only if its body is commutative for a stated structural reason, never because a replay did not object.
    ('SMSgreedy.target', 'for o in to_remove'): "body only pops keys of a dictionary: commutative",
    ('SMSgreedy.target', 'for w in needed_set'): "body increments per-element counters: commutative",
    ('update_with_tree_level', 'for prev_instr_id in set(dependent_instr_ids).difference(analyzed_instr_ids)'):
        "update_current_index keeps a minimum and a maximum per id: commutative and idempotent",
    ('toposort_instr_dependencies', 'list(set((instr_id for instr_id in dependency_graph)).difference('):
        "instruction_dependencies.py copy, used by hap_bef_rel only, which builds sets (membership)",
    ('bounds_from_instructions', 'list(set((instruction.id for instruction in instructions if instruction.instruction_subset == Instru'):
        "list of store ids handed to update_current_index (minimum / maximum per id): commutative",
}


# number of reviewed sites per (module, call) / per module -- the reasons are in the two tables above
REVIEWED_NONDET_BUDGET = {
    ('greedy.block_generation', 'getrusage'): 3, ('sfs_generator.gasol_optimization', 'listdir'): 2, ('sfs_generator.gasol_optimization', 'dtimer'): 3,
    ('sfs_generator.ir_block', 'dtimer'): 2, ('sfs_generator.ir_block', 'listdir'): 1, ('gasol_asm', 'dtimer'): 2,
}
REVIEWED_SETITER_BUDGET = {
    'greedy.block_generation': 2, 'smt_encoding.instructions.instruction_bounds_with_dependencies': 1,
    'smt_encoding.instructions.instruction_dependencies': 1, 'smt_encoding.json_with_dependencies': 1,
}


def lookup(table, fn, src):
    for (f, prefix), why in table.items():
        if fn.endswith(f) and src.replace('"', "'").startswith(prefix.replace('"', "'")):
            return why
    return None


class PurityScan(NativeCase):
    prop = 'C13'
    tier = 'E'
    name = "purity(no run-dependent source reaches a result)"

    def run_native(self, tier):
        A = Analysis(REPO, MODS)
        reach = set()
        for e in ENTRIES + EXTRA_ENTRIES:
            if e in A.funcs:
                reach |= A.reachable(e)
        self.ob('analysis-covers-the-pipeline', len(reach) > 150, inputs=dict(reachable_functions=len(reach)))
        n_nd = n_si = 0
        # reviewed budget per module (robust to renaming of functions and locals): how many sites of each kind were reviewed
        per_mod_nd, per_mod_si = {}, {}
        sites_nd, sites_si = {}, {}
        for k in sorted(reach):
            nd, si = purity.scan_function(A.funcs[k])
            for (ln, src) in nd:
                n_nd += 1
                call = src.split('(')[0].split('.')[-1]
                per_mod_nd[(k[0], call)] = per_mod_nd.get((k[0], call), 0) + 1
                sites_nd.setdefault((k[0], call), []).append("%s:%d %s" % (k[1], ln, src))
            for (ln, src) in si:
                n_si += 1
                per_mod_si[k[0]] = per_mod_si.get(k[0], 0) + 1
                sites_si.setdefault(k[0], []).append("%s:%d %s" % (k[1], ln, src))
        for key in sorted(set(per_mod_nd) | set(REVIEWED_NONDET_BUDGET)):
            got, budget = per_mod_nd.get(key, 0), REVIEWED_NONDET_BUDGET.get(key, 0)
            self.ob('run-dependent sources are the reviewed ones', got <= budget, inputs=dict(module=key[0], call=key[1], sites=sites_nd.get(key, []), reviewed=budget),
                    info="%d call(s) of %s in %s, %d reviewed: %s" % (got, key[1], key[0], budget, sites_nd.get(key)))
        for key in sorted(set(per_mod_si) | set(REVIEWED_SETITER_BUDGET)):
            got, budget = per_mod_si.get(key, 0), REVIEWED_SETITER_BUDGET.get(key, 0)
            self.ob('ordered consumptions of sets are the reviewed ones', got <= budget, inputs=dict(module=key, sites=sites_si.get(key, []), reviewed=budget),
                    info="%d ordered consumption(s) of a set in %s, %d reviewed: %s" % (got, key, budget, sites_si.get(key)))
        # a clock value may be stored and reported, but no decision may depend on it (machine load / speed)
        _, _, sites = purity.clock_taint(dict((k, A.funcs[k]) for k in reach))
        unreviewed = [x for x in sites if not any(k[1].endswith(f) and src.startswith(pref) for (f, pref) in REVIEWED_CLOCK_TESTS for k, _, src in [x])]
        self.ob('no clock value reaches a decision', not unreviewed, inputs=dict(sites=["%s:%d %s" % (k[1], ln, src) for k, ln, src in unreviewed]),
                info="a value read from a clock is compared or tested: %s" % unreviewed[:3])
        # ... and none may end up in an output file: fields of the rows / dictionaries the pipeline writes that hold a measured time
        time_fields = set()
        for k in sorted(reach):
            for n_ in ast.walk(A.funcs[k]):
                keys = []
                if isinstance(n_, ast.Dict):
                    keys = [x for x in n_.keys if isinstance(x, ast.Constant) and isinstance(x.value, str)]
                elif isinstance(n_, ast.Subscript) and isinstance(n_.ctx, ast.Store) and isinstance(n_.slice, ast.Constant) and isinstance(n_.slice.value, str):
                    keys = [n_.slice]
                for x in keys:
                    if 'time' in x.value.lower() and 'timeout' not in x.value.lower():
                        time_fields.add("%s.%s: %s" % (k[0], k[1], x.value))
        self.ob('no output field holds a measured time', not time_fields, inputs=dict(fields=sorted(time_fields)),
                info="fields of written rows that hold a time measured during the run: %s" % sorted(time_fields))
        # a memoised function keeps results across blocks: only allowed when it reads nothing but its arguments
        memo = [(k, purity.memoised(A.funcs[k])) for k in sorted(reach) if purity.memoised(A.funcs[k])]
        self.ob('no memoised function inside the pipeline', not memo, inputs=dict(functions=["%s.%s %s" % (k[0], k[1], d) for k, d in memo]),
                info="results kept between calls (and blocks): %s" % memo[:3])
        # identifier numbering goes through sorted(...)
        bud = A.funcs.get(('sfs_generator.gasol_optimization', 'build_userdef_instructions'))
        ok = bud is not None and any(isinstance(n, ast.Call) and isinstance(n.func, ast.Name) and n.func.id == 'sorted' and 'u_dict' in ast.unparse(n)
                                     for n in ast.walk(bud))
        self.ob('identifier numbering iterates sorted(u_dict.keys())', ok)
        self.assumptions = ("scan limits: set-typedness is inferred syntactically (constructors, set methods, key-view arithmetic, Set annotations); "
                            "values that become sets through other routes are covered by the hash-seed replay only",
                            "%d run-dependent call sites and %d ordered set consumptions, all reviewed" % (n_nd, n_si))


ORDER_SENSITIVE = [
    # two loads of different kinds with the same index that must both precede one store (ties of a sort key over a set of ids)
    "MLOAD SWAP1 PUSH 20 SWAP1 KECCAK256 SWAP2 SWAP1 SWAP3 SWAP1 MSTORE", "SLOAD SWAP1 MLOAD SWAP2 SWAP1 SWAP3 SWAP1 SSTORE",
    "DUP1 MLOAD DUP2 PUSH 20 SWAP1 KECCAK256 DUP3 SLOAD SWAP3 SWAP1 SWAP4 SWAP1 MSTORE ADD ADD",
    "DUP1 MLOAD SWAP2 PUSH 20 ADD MLOAD DUP3 SSTORE DUP2 PUSH 1 ADD SLOAD ADD SWAP1 PUSH 0 MSTORE PUSH 20 MSTORE PUSH 40 PUSH 0 KECCAK256 SLOAD "
    "DUP2 MSTORE PUSH 7 PUSH 9 SSTORE",
    "DUP1 MLOAD SWAP1 PUSH 20 ADD MLOAD DUP2 PUSH 0 MSTORE PUSH 20 MSTORE PUSH 40 PUSH 0 KECCAK256 SLOAD ADD PUSH 0 SSTORE",
    "PUSH 0 MLOAD PUSH 20 MLOAD DUP2 DUP2 ADD PUSH 0 MSTORE MUL PUSH 20 MSTORE PUSH 40 PUSH 0 KECCAK256 PUSH 1 SSTORE",
]


def more_order_sensitive(n, seed=13):
    """random blocks mixing loads, stores and hashes over few addresses, with re-used values"""
    import random
    rnd = random.Random(seed)
    out = []
    for _ in range(n):
        toks = ["DUP1", "MLOAD", "DUP2", "PUSH 20", "ADD", "MLOAD"]
        depth = 3
        for _ in range(rnd.randint(6, 12)):
            k = rnd.choice(['mstore', 'sstore', 'sload', 'mload', 'keccak', 'add', 'dup'])
            if k == 'mstore' and depth >= 1:
                toks += ["PUSH %x" % rnd.choice([0, 0x20, 0x40]), "MSTORE"]; depth -= 1
            elif k == 'sstore' and depth >= 1:
                toks += ["PUSH %x" % rnd.choice([0, 1, 9]), "SSTORE"]; depth -= 1
            elif k == 'sload':
                toks += ["PUSH %x" % rnd.choice([0, 1, 9]), "SLOAD"]; depth += 1
            elif k == 'mload':
                toks += ["PUSH %x" % rnd.choice([0, 0x20, 0x40]), "MLOAD"]; depth += 1
            elif k == 'keccak':
                toks += ["PUSH 40", "PUSH 0", "KECCAK256"]; depth += 1
            elif k == 'add' and depth >= 2:
                toks += ["ADD"]; depth -= 1
            elif k == 'dup' and depth >= 1:
                toks += ["DUP%d" % rnd.randint(1, min(depth, 3))]; depth += 1
        out.append(" ".join(toks))
    return out


def csv_diff(a, b):
    """names of the columns in which two sets of statistics files differ (file list / row count differences are reported as such)"""
    import csv, io
    if sorted(a) != sorted(b):
        return ['<file list>']
    out = set()
    for fn in a:
        ra, rb = list(csv.DictReader(io.StringIO(a[fn]))), list(csv.DictReader(io.StringIO(b[fn])))
        if len(ra) != len(rb):
            out.add('<row count of %s>' % fn)
            continue
        for x, y in zip(ra, rb):
            for k in set(x) | set(y):
                if x.get(k) != y.get(k):
                    out.add(k)
    return sorted(out)


class HashSeedReplay(NativeCase):
    prop = 'C13'
    name = "hash-seed/process replay(bounded)"
    weight = 90

    def run_native(self, tier):
        import gasol_asm
        from .common import irb
        import greedy.block_generation as bg
        self.functions = (irb.evm2rbr_compiler, bg.greedy_from_json)
        from . import blocks as corpus
        from .c02 import MEM_BLOCKS
        from .c10 import EDGE_BLOCKS
        pool = list(corpus.BASE_BLOCKS) + MEM_BLOCKS + EDGE_BLOCKS[:30]
        # blocks with many memory operations and repeated sub-terms (dependency graphs with several roots)
        pool += ["DUP1 MLOAD DUP2 PUSH 20 ADD MLOAD DUP3 PUSH 40 ADD MLOAD ADD ADD SWAP1 PUSH 60 ADD MSTORE",
                 "PUSH 0 MLOAD PUSH 20 MLOAD PUSH 40 MLOAD DUP3 DUP3 ADD PUSH 60 MSTORE DUP2 DUP2 MUL PUSH 80 MSTORE PUSH 0 SSTORE PUSH 1 SSTORE POP",
                 "DUP3 DUP3 DUP3 ADD MUL DUP4 DUP4 DUP4 SUB DIV DUP5 SLOAD DUP6 SLOAD ADD ADD ADD SWAP3 POP POP POP",
                 "CALLER ORIGIN ADDRESS CALLVALUE ADD ADD ADD DUP1 DUP1 MUL SWAP1 PUSH 0 MSTORE PUSH 20 MSTORE"]
        if tier == 'quick':
            pool = pool[::2]
        # blocks whose instruction-dependency graph has operations reached both through an ordering constraint and as operands
        # (found order-sensitive under the hash seed, finding F23); never thinned out
        pool += ORDER_SENSITIVE
        if tier != 'quick':
            pool += more_order_sensitive(40)
        seeds = ['0', '1', '2', '3'] if tier == 'quick' else [str(i) for i in range(10)] + ['random']
        base = None
        csv_cols = set()
        for opts in (dict(), dict(storage=True)):
            job = [('inproc', b, opts) for b in pool]
            results = {}
            for sd in seeds:
                results[sd] = run_child(job, env_extra={'PYTHONHASHSEED': sd})
            ref = results[seeds[0]]
            for sd in seeds[1:]:
                for b, r0, r1 in zip(pool, ref, results[sd]):
                    inp = dict(block=b, opts=opts, seeds=[seeds[0], sd])
                    self.ob('identical specifications (identifiers included)', r0.get('spec') == r1.get('spec') and r0.get('sub') == r1.get('sub'),
                            inputs=inp, info="specification differs between PYTHONHASHSEED=%s and %s" % (seeds[0], sd))
                    self.ob('identical emitted code', r0.get('out') == r1.get('out') and r0.get('exc') == r1.get('exc'), inputs=inp,
                            info="%r vs %r" % (r0.get('out'), r1.get('out')))
                    cols = csv_diff(r0.get('csv') or {}, r1.get('csv') or {})
                    csv_cols |= set(cols)
        # the statistics files are output files too: which columns differ between two runs on the same input (one obligation for the run)
        # (the measured solver time is dealt with statically by the purity scan - finding F48 - because whether two measurements
        # differ is itself run-dependent)
        csv_cols.discard('solver_time_in_sec')
        self.ob('identical statistics files (all columns but the measured time)', not csv_cols, inputs=dict(columns=sorted(csv_cols)),
                info="columns of the statistics CSV that differ between two runs on the same input: %s" % sorted(csv_cols))
        self.assumptions = ("bounded: %d blocks x 2 option sets x %d hash seeds (separate processes, separate scratch directories)" % (len(pool), len(seeds)),)


def cases(tier='quick'):
    return [PurityScan(), HashSeedReplay()], {}
