"""Synthetic solc assembly-JSON documents built from corpus blocks (for the bounded tiers of C09, C11, C15)."""
import json


def item(name, value=None, begin=0, end=10, source=0, **extra):
    d = {"begin": begin, "end": end, "name": name, "source": source}
    if value is not None:
        d["value"] = value
    d.update(extra)
    return d


def items_of_tokens(tokens, begin=0):
    out = []
    for k, t in enumerate(tokens):
        ps = t.split()
        if ps[0] == 'PUSH' and len(ps) == 2:
            out.append(item("PUSH", ps[1].lower().lstrip('0') or '0', begin + k, begin + k + 3))
        else:
            out.append(item(t, None, begin + k, begin + k + 1))
    return out


def code_of_blocks(block_tokens, tags=True):
    """blocks separated by tag/JUMPDEST ... JUMP [in]"""
    code = []
    for i, toks in enumerate(block_tokens):
        if tags and i > 0:
            code.append(item("tag", str(i), 100 * i, 100 * i + 1))
            code.append(item("JUMPDEST", None, 100 * i, 100 * i + 1))
        code += items_of_tokens(toks, 100 * i + 2)
        code.append(item("PUSH [tag]", str(i + 1), 100 * i + 50, 100 * i + 51))
        code.append(item("JUMP", None, 100 * i + 52, 100 * i + 53, jumpType="[in]"))
    return code


def document(init_blocks, run_blocks, with_noasm=True, with_source_list=True, extra_contract=None, homonym=None, second_runtime=None):
    asm = {".code": code_of_blocks(init_blocks),
           ".data": {"0": {".auxdata": "a264697066735822", ".code": code_of_blocks(run_blocks)}}}
    if second_runtime is not None:
        # a second sub-assembly with code (factory contracts), itself with a nested data section
        asm[".data"]["1"] = {".auxdata": "a2646970667358ff", ".code": code_of_blocks(second_runtime),
                             ".data": {"0": {".auxdata": "a1", ".code": code_of_blocks([["PUSH 1", "PUSH 0", "SSTORE"]])}}}
    if with_source_list:
        asm["sourceList"] = ["f.sol", "#utility.yul"]
    contracts = {"f.sol:C": {"asm": asm}}
    if with_noasm:
        contracts["f.sol:I"] = {"asm": None}
    if extra_contract is not None:
        contracts["f.sol:D"] = {"asm": extra_contract}
    if homonym is not None:
        # a second contract with the same short name in another file (block names are derived from the short name)
        contracts["lib/g.sol:C"] = {"asm": homonym}
    return {"contracts": contracts, "version": "0.8.17+commit.8df45f5f.Linux.g++"}


def dumps(doc):
    return json.dumps(doc)
