"""Corpus of basic blocks and semantic mutation operators for the bounded tiers (plain instruction strings, hex operands)."""
import itertools

NONCOMM2 = ["SUB", "DIV", "SDIV", "MOD", "SMOD", "EXP", "LT", "GT", "SLT", "SGT", "SHL", "SHR", "SAR", "BYTE", "SIGNEXTEND"]
SUBST = {"SUB": ["DIV", "ADD"], "DIV": ["SDIV", "SUB"], "SDIV": ["DIV"], "MOD": ["SMOD", "DIV"], "SMOD": ["MOD"], "LT": ["SLT", "GT"],
         "GT": ["SGT", "LT"], "SLT": ["LT"], "SGT": ["GT"], "SHR": ["SAR", "SHL"], "SAR": ["SHR"], "SHL": ["SHR"], "ADD": ["MUL", "OR"],
         "MUL": ["ADD"], "AND": ["OR"], "OR": ["XOR"], "XOR": ["OR"], "ISZERO": ["NOT"], "NOT": ["ISZERO"], "EQ": ["LT"],
         "MLOAD": ["SLOAD"], "SLOAD": ["MLOAD"], "MSTORE": ["MSTORE8"], "MSTORE8": ["MSTORE"], "ADDMOD": ["MULMOD"], "MULMOD": ["ADDMOD"],
         "CALLER": ["ORIGIN"], "ADDRESS": ["CALLER"], "CALLVALUE": ["CALLDATASIZE"], "KECCAK256": None, "BYTE": ["SHR"]}

BASE_BLOCKS = [
    "SUB ADD", "DIV ADD", "SWAP1 SUB PUSH 5 ADD", "SMOD", "MOD PUSH 3 ADD", "DUP1 DUP3 SUB SWAP2 POP", "DUP2 DUP2 LT ISZERO SWAP2 POP POP",
    "PUSH 1 ADD DUP1 MLOAD SWAP1 POP", "PUSH 20 SHL PUSH 1 SHR", "SLT ISZERO", "SGT PUSH 0 EQ", "EXP PUSH 2 MUL", "ADDMOD", "MULMOD PUSH 1 ADD",
    "SAR", "SHR DUP1 AND", "BYTE", "SIGNEXTEND", "NOT PUSH 1 ADD", "DUP1 ISZERO ISZERO SWAP1 POP", "CALLER PUSH ffffffffffffffffffffffffffffffffffffffff AND",
    "PUSH 0 MSTORE PUSH 20 MSTORE", "PUSH 0 MSTORE PUSH 10 MSTORE PUSH 0 MLOAD", "DUP2 DUP2 MSTORE MLOAD ADD", "PUSH 40 MLOAD DUP1 PUSH 20 ADD PUSH 40 MSTORE SWAP1 POP",
    "DUP1 SLOAD PUSH 1 ADD SWAP1 SSTORE", "DUP2 DUP2 SSTORE SLOAD ADD", "PUSH 0 SLOAD PUSH 1 SLOAD ADD PUSH 0 SSTORE", "SWAP1 DUP2 SSTORE PUSH 7 SWAP1 SSTORE",
    "PUSH 0 MSTORE8 PUSH 0 MLOAD", "PUSH 1f MSTORE8 PUSH 0 MLOAD ADD", "PUSH 20 PUSH 0 KECCAK256 ADD", "DUP2 PUSH 0 MSTORE PUSH 20 PUSH 0 KECCAK256 SWAP2 POP POP",
    "PUSH 0 MSTORE PUSH 20 PUSH 0 KECCAK256 SLOAD", "SWAP2 SWAP1 SUB MUL", "DUP3 DUP3 DUP3 ADDMOD SWAP3 POP POP POP", "CALLVALUE DUP1 ISZERO PUSH 4 ADD",
    "PUSH 4 CALLDATALOAD PUSH e0 SHR", "ADDRESS BALANCE", "DUP1 PUSH 1 SWAP1 SUB SWAP1 PUSH 2 SWAP1 DIV ADD", "MLOAD PUSH 20 ADD MLOAD",
    "DUP1 MLOAD SWAP1 PUSH 20 ADD MLOAD SUB", "PUSH 5 PUSH 7 DUP3 MSTORE PUSH 9 DUP3 MSTORE8 SWAP1 MLOAD ADD",
    "SWAP1 POP PUSH 3 GT", "PUSH ff AND PUSH 8 SHL", "TIMESTAMP NUMBER SUB", "DUP1 DUP1 XOR ADD", "PUSH 0 DUP2 MSTORE PUSH 1 DUP2 MSTORE8 MLOAD",
]


def tokens(b):
    """'PUSH 5 ADD' -> ['PUSH 5', 'ADD']"""
    out = []
    ps = b.split()
    i = 0
    while i < len(ps):
        if ps[i].startswith('PUSH') and ps[i] != 'PUSH0' and i + 1 < len(ps) and ps[i] == 'PUSH':
            out.append(ps[i] + ' ' + ps[i + 1])
            i += 2
        else:
            out.append(ps[i])
            i += 1
    return out


def mutants(instrs):
    """semantic mutation operators of property C05; yields (kind, mutated instruction list)"""
    n = len(instrs)
    for i, ins in enumerate(instrs):
        op = ins.split()[0]
        if op in NONCOMM2:
            yield ('operand-swap@%d' % i, instrs[:i] + ['SWAP1'] + instrs[i:])
        for alt in (SUBST.get(op) or []):
            yield ('subst-%s->%s@%d' % (op, alt, i), instrs[:i] + [alt] + instrs[i + 1:])
        if op == 'PUSH':
            v = int(ins.split()[1], 16)
            for nv in (v + 1, v ^ 0x20, 0 if v else 1):
                yield ('const-%x->%x@%d' % (v, nv, i), instrs[:i] + ['PUSH %x' % nv] + instrs[i + 1:])
        if op.startswith('DUP') and op[3:].isdigit():
            k = int(op[3:])
            for nk in (k + 1, k - 1):
                if 1 <= nk <= 16:
                    yield ('dup-%d->%d@%d' % (k, nk, i), instrs[:i] + ['DUP%d' % nk] + instrs[i + 1:])
        if op.startswith('SWAP') and op[4:].isdigit():
            k = int(op[4:])
            for nk in (k + 1, k - 1):
                if 1 <= nk <= 16:
                    yield ('swap-%d->%d@%d' % (k, nk, i), instrs[:i] + ['SWAP%d' % nk] + instrs[i + 1:])
        if op in ('MSTORE', 'SSTORE', 'MSTORE8'):
            yield ('dropped-store@%d' % i, instrs[:i] + ['POP', 'POP'] + instrs[i + 1:])
            yield ('duplicated-store@%d' % i, instrs[:i] + ['DUP2', 'DUP2', op] + instrs[i:])
    # reorder two stores
    st = [i for i, x in enumerate(instrs) if x.split()[0] in ('MSTORE', 'SSTORE', 'MSTORE8')]
    if len(st) >= 2:
        a, b = st[0], st[1]
        seg1 = instrs[(0 if a == 0 else 0):a + 1]
        # only when the first store's operands are pushed immediately before it
        if a >= 2 and all(x.startswith('PUSH') for x in instrs[a - 2:a]) and b >= a + 3 and all(x.startswith('PUSH') for x in instrs[b - 2:b]):
            m = instrs[:a - 2] + instrs[b - 2:b + 1] + instrs[a + 1:b - 2] + instrs[a - 2:a + 1] + instrs[b + 1:]
            yield ('reordered-stores', m)
