"""Corpus of basic blocks and semantic mutation operators for the bounded tiers (plain instruction strings, hex operands)."""
import itertools

NONCOMM2 = ["SUB", "DIV", "SDIV", "MOD", "SMOD", "EXP", "LT", "GT", "SLT", "SGT", "SHL", "SHR", "SAR", "BYTE", "SIGNEXTEND"]
SUBST = {"SUB": ["DIV", "ADD"], "DIV": ["SDIV", "SUB"], "SDIV": ["DIV"], "MOD": ["SMOD", "DIV"], "SMOD": ["MOD"], "LT": ["SLT", "GT"],
         "GT": ["SGT", "LT"], "SLT": ["LT"], "SGT": ["GT"], "SHR": ["SAR", "SHL"], "SAR": ["SHR"], "SHL": ["SHR"], "ADD": ["MUL", "OR"],
         "MUL": ["ADD"], "AND": ["OR"], "OR": ["XOR"], "XOR": ["OR"], "ISZERO": ["NOT"], "NOT": ["ISZERO"], "EQ": ["LT"],
         "MLOAD": ["SLOAD"], "SLOAD": ["MLOAD"], "MSTORE": ["MSTORE8"], "MSTORE8": ["MSTORE"], "ADDMOD": ["MULMOD"], "MULMOD": ["ADDMOD"],
         "CALLER": ["ORIGIN"], "ADDRESS": ["CALLER"], "CALLVALUE": ["CALLDATASIZE"], "KECCAK256": None, "BYTE": ["SHR"]}

BASE_BLOCKS = [
    "SUB ADD", "DIV ADD", "SWAP1 SUB PUSH 5 ADD", "SMOD", "MOD PUSH 3 ADD", "DUP1 DUP3 SUB SWAP2 POP", "DUP2 DUP2 LT ISZERO SWAP2 POP POP",
    "PUSH 1 ADD DUP1 MLOAD SWAP1 POP", "PUSH 20 SHL PUSH 1 SHR", "SLT ISZERO", "SGT PUSH 0 EQ", "EXP PUSH 2 MUL", "ADDMOD", "MULMOD PUSH 1 ADD",
    "SAR", "SHR DUP1 AND", "BYTE", "SIGNEXTEND", "NOT PUSH 1 ADD", "DUP1 ISZERO ISZERO SWAP1 POP", "CALLER PUSH ffffffffffffffffffffffffffffffffffffffff AND",
    "PUSH 0 MSTORE PUSH 20 MSTORE", "PUSH 0 MSTORE PUSH 10 MSTORE PUSH 0 MLOAD", "DUP2 DUP2 MSTORE MLOAD ADD", "PUSH 40 MLOAD DUP1 PUSH 20 ADD PUSH 40 MSTORE SWAP1 POP",
    "DUP1 SLOAD PUSH 1 ADD SWAP1 SSTORE", "DUP2 DUP2 SSTORE SLOAD ADD", "PUSH 0 SLOAD PUSH 1 SLOAD ADD PUSH 0 SSTORE", "SWAP1 DUP2 SSTORE PUSH 7 SWAP1 SSTORE",
    "PUSH 0 MSTORE8 PUSH 0 MLOAD", "PUSH 1f MSTORE8 PUSH 0 MLOAD ADD", "PUSH 20 PUSH 0 KECCAK256 ADD", "DUP2 PUSH 0 MSTORE PUSH 20 PUSH 0 KECCAK256 SWAP2 POP POP",
    "PUSH 0 MSTORE PUSH 20 PUSH 0 KECCAK256 SLOAD", "SWAP2 SWAP1 SUB MUL", "DUP3 DUP3 DUP3 ADDMOD SWAP3 POP POP POP", "CALLVALUE DUP1 ISZERO PUSH 4 ADD",
    "PUSH 4 CALLDATALOAD PUSH e0 SHR", "ADDRESS BALANCE", "DUP1 PUSH 1 SWAP1 SUB SWAP1 PUSH 2 SWAP1 DIV ADD", "MLOAD PUSH 20 ADD MLOAD",
    "DUP1 MLOAD SWAP1 PUSH 20 ADD MLOAD SUB", "PUSH 5 PUSH 7 DUP3 MSTORE PUSH 9 DUP3 MSTORE8 SWAP1 MLOAD ADD",
    "SWAP1 POP PUSH 3 GT", "PUSH ff AND PUSH 8 SHL", "TIMESTAMP NUMBER SUB", "DUP1 DUP1 XOR ADD", "PUSH 0 DUP2 MSTORE PUSH 1 DUP2 MSTORE8 MLOAD",
]


def tokens(b):
    """'PUSH 5 ADD' -> ['PUSH 5', 'ADD']"""
    out = []
    ps = b.split()
    i = 0
    while i < len(ps):
        if ps[i].startswith('PUSH') and ps[i] != 'PUSH0' and i + 1 < len(ps) and ps[i] == 'PUSH':
            out.append(ps[i] + ' ' + ps[i + 1])
            i += 2
        else:
            out.append(ps[i])
            i += 1
    return out


def mutants(instrs):
    """semantic mutation operators of property C05; yields (kind, mutated instruction list)"""
    n = len(instrs)
    for i, ins in enumerate(instrs):
        op = ins.split()[0]
        if op in NONCOMM2:
            yield ('operand-swap@%d' % i, instrs[:i] + ['SWAP1'] + instrs[i:])
        for alt in (SUBST.get(op) or []):
            yield ('subst-%s->%s@%d' % (op, alt, i), instrs[:i] + [alt] + instrs[i + 1:])
        if op == 'PUSH':
            v = int(ins.split()[1], 16)
            for nv in ((v + 1) % (2 ** 256), v ^ 0x20, 0 if v else 1):       # a mutant is a well-formed block: constants stay words
                yield ('const-%x->%x@%d' % (v, nv, i), instrs[:i] + ['PUSH %x' % nv] + instrs[i + 1:])
        if op.startswith('DUP') and op[3:].isdigit():
            k = int(op[3:])
            for nk in (k + 1, k - 1):
                if 1 <= nk <= 16:
                    yield ('dup-%d->%d@%d' % (k, nk, i), instrs[:i] + ['DUP%d' % nk] + instrs[i + 1:])
        if op.startswith('SWAP') and op[4:].isdigit():
            k = int(op[4:])
            for nk in (k + 1, k - 1):
                if 1 <= nk <= 16:
                    yield ('swap-%d->%d@%d' % (k, nk, i), instrs[:i] + ['SWAP%d' % nk] + instrs[i + 1:])
        if op in ('MSTORE', 'SSTORE', 'MSTORE8'):
            yield ('dropped-store@%d' % i, instrs[:i] + ['POP', 'POP'] + instrs[i + 1:])
            yield ('duplicated-store@%d' % i, instrs[:i] + ['DUP2', 'DUP2', op] + instrs[i:])
    # reorder two stores
    st = [i for i, x in enumerate(instrs) if x.split()[0] in ('MSTORE', 'SSTORE', 'MSTORE8')]
    if len(st) >= 2:
        a, b = st[0], st[1]
        seg1 = instrs[(0 if a == 0 else 0):a + 1]
        # only when the first store's operands are pushed immediately before it
        if a >= 2 and all(x.startswith('PUSH') for x in instrs[a - 2:a]) and b >= a + 3 and all(x.startswith('PUSH') for x in instrs[b - 2:b]):
            m = instrs[:a - 2] + instrs[b - 2:b + 1] + instrs[a + 1:b - 2] + instrs[a - 2:a + 1] + instrs[b + 1:]
            yield ('reordered-stores', m)


def rule_shape_blocks(level=1):
    """instantiations of the left-hand sides of the simplification rules: binary/unary operators applied to stack variables,
    repeated variables and the constants the rules look for, alone, under ISZERO chains, next to an existing ISZERO of the same
    operand, and followed by a second operator with a constant"""
    consts = ["0", "1", "2", "ff", "ffffffffffffffffffffffffffffffffffffffff", "ffffffffffffffffffffffffffffffffffffffffffffffffffffffffffffffff"]
    bin_ops = ["ADD", "SUB", "MUL", "DIV", "SDIV", "MOD", "SMOD", "EXP", "AND", "OR", "XOR", "LT", "GT", "SLT", "SGT", "EQ", "SHL", "SHR", "SAR",
               "BYTE", "SIGNEXTEND"]
    out = []
    for op in bin_ops:
        out.append(op)                                   # X op Y
        out.append("DUP1 " + op)                         # X op X
        for c in consts:
            out.append("PUSH %s %s" % (c, op))           # c op X   (c on top)
            out.append("PUSH %s SWAP1 %s" % (c, op))     # X op c
    for op in ["ISZERO", "NOT"]:
        out += [op, op + " " + op, op + " " + op + " " + op, "PUSH 0 " + op, "PUSH 1 " + op, "PUSH 0 %s %s" % (op, op)]
    cmp_ops = ["LT", "GT", "SLT", "SGT", "EQ"]
    for op in cmp_ops:
        for c in ("0", "1"):
            for form in ("PUSH %s %s", "PUSH %s SWAP1 %s"):
                core = form % (c, op)
                out.append(core + " ISZERO")
                out.append(core + " ISZERO ISZERO")
                out.append("DUP1 ISZERO SWAP1 " + core)              # an ISZERO of the same operand already exists
                out.append("DUP1 ISZERO SWAP1 " + core + " ADD")
                out.append("DUP1 " + core + " SWAP1 ISZERO ADD")
        out.append(op + " ISZERO")
        out.append(op + " ISZERO ISZERO")
        out.append("DUP2 DUP2 %s SWAP2 SWAP1 %s ADD" % (op, op))        # the same comparison twice
    out += ["ADDRESS BALANCE", "ADDRESS BALANCE ADDRESS BALANCE ADD", "CALLER PUSH ffffffffffffffffffffffffffffffffffffffff AND",
            "PUSH ffffffffffffffffffffffffffffffffffffffff CALLER AND", "ORIGIN PUSH ffffffffffffffffffffffffffffffffffffffff AND ADDRESS AND",
            "PUSH ffffffffffffffffffffffffffffffffffffffff AND PUSH ffffffffffffffffffffffffffffffffffffffff AND", "PUSH ff AND PUSH ff AND",
            "PUSH ff AND PUSH ffff AND", "PUSH ff OR PUSH ff OR", "DUP2 AND AND", "DUP2 OR OR", "DUP2 OR AND", "DUP2 AND OR", "DUP1 DUP3 AND AND",
            "PUSH 1 PUSH 2 SHL MUL", "PUSH 1 SWAP1 SHL MUL", "PUSH 1 SWAP1 SHL SWAP1 DIV", "PUSH 1 SWAP1 SHL DIV", "PUSH 2 EXP", "PUSH 2 SWAP1 EXP",
            "PUSH 100 EXP", "PUSH 100 SWAP1 EXP", "PUSH 1 PUSH 4 SHL SWAP1 MUL", "PUSH 0 SUB PUSH 0 SUB", "PUSH 1 ADD PUSH 1 SWAP1 SUB", "PUSH 1 SWAP1 SUB PUSH 1 ADD",
            "DUP1 SUB", "DUP1 XOR", "DUP2 SUB ISZERO", "DUP2 XOR ISZERO", "SUB ISZERO", "XOR ISZERO", "SUB ISZERO ISZERO", "DUP2 DUP2 SUB ISZERO SWAP2 EQ ADD",
            "ISZERO ISZERO ISZERO ISZERO", "DUP1 ISZERO ISZERO SWAP1 ISZERO ADD", "PUSH 0 EQ", "PUSH 0 SWAP1 EQ", "PUSH 0 EQ ISZERO", "PUSH 1 EQ", "PUSH 1 AND PUSH 1 EQ",
            "NOT NOT ADD", "DUP1 NOT NOT ADD", "NOT PUSH 0 NOT AND", "PUSH 0 NOT AND", "PUSH 0 NOT OR", "PUSH 0 NOT XOR"]
    # the same shapes with the operands arriving in the other order
    out += ["SWAP1 " + b for b in list(out) if len(b.split()) >= 2 and not b.startswith(("DUP", "SWAP"))][::2]
    if level > 1:
        extra = []
        for a in out[:len(out)]:
            if len(a.split()) <= 4:
                extra.append(a + " ISZERO")
                extra.append(a + " PUSH 0 ADD")
        out += extra
    seen, res = set(), []
    for b in out:
        if b not in seen:
            seen.add(b)
            res.append(b)
    return res


# ---------------------------------------------------------------------------------------------------------------------
# rule patterns that span two instructions, with the inner result shared.  A term is ('in', i) | ('c', hex) | (OP, arg...),
# arguments in stack order (first = top of the stack when OP executes).
def compile_terms(outputs, n_inputs):
    """straight-line code that leaves the values of `outputs` (a permutation of them) on top of the n_inputs stack elements it
    starts from; a term that is already somewhere on the stack is copied with DUP, never recomputed, so a sub-term used twice
    has two consumers; intermediate copies that are not outputs are removed again (SWAPk POP)"""
    stack = [('in', i) for i in range(n_inputs)]          # top first
    code = []

    def fetch(t):
        if t in stack and stack.index(t) < 16:
            code.append("DUP%d" % (stack.index(t) + 1))
        elif t[0] == 'c':
            code.append("PUSH " + t[1])
        elif t[0] == 'in':
            raise ValueError("input too deep")
        else:
            for a in reversed(t[1:]):
                fetch(a)
            code.append(t[0])
            del stack[:len(t) - 1]
        stack.insert(0, t)
    # sub-terms shared between outputs are computed first so that every use is a DUP of one instruction
    def subterms(t, acc):
        if t[0] not in ('in', 'c'):
            for a in t[1:]:
                subterms(a, acc)
            acc.append(t)
    seen = []
    for o in outputs:
        subterms(o, seen)
    for t in seen:
        if seen.count(t) > 1 and t not in stack:
            fetch(t)
    for o in reversed(outputs):
        fetch(o)
    m = len(outputs)
    # whatever lies between the outputs and the inputs is an intermediate copy: drop it
    while len(stack) > m + n_inputs:
        if m > 16:
            raise ValueError("too many outputs")
        code.append("SWAP%d" % m)
        code.append("POP")
        junk = stack[m]
        stack[m] = stack[0]
        del stack[0]
        assert junk is not None
    return " ".join(code)


def shared_rule_shape_blocks():
    """every two-instruction pattern of the context rules with: only the outer result / the outer and the inner result / the outer
    result and another consumer of the inner one (seed C03-6: a rule that rewrites an instruction another one still reads)"""
    x, y, z, w = ('in', 0), ('in', 1), ('in', 2), ('in', 3)
    c = lambda h: ('c', h)
    A160 = c("ffffffffffffffffffffffffffffffffffffffff")
    pats = []            # (outer, [inner terms whose sharing matters])
    shl1 = lambda s: ("SHL", s, c("1"))
    for outer in ("MUL", "DIV"):
        pats += [((outer, x, shl1(y)), [shl1(y)]), ((outer, shl1(y), x), [shl1(y)])]
    pats += [(("AND", ("SHL", x, y), ("SHL", x, z)), [("SHL", x, y), ("SHL", x, z)]),
             (("AND", ("SHL", x, y), ("SHL", w, z)), [("SHL", x, y)]),
             (("OR", ("SHL", x, y), ("SHL", x, z)), [("SHL", x, y)]),
             (("BALANCE", ("ADDRESS",)), [("ADDRESS",)]), (("AND", ("ADDRESS",), A160), [("ADDRESS",)]), (("AND", A160, ("CALLER",)), [("CALLER",)]),
             (("AND", ("ORIGIN",), A160), [("ORIGIN",)]),
             (("ISZERO", ("ISZERO", x)), [("ISZERO", x)]), (("ISZERO", ("ISZERO", ("ISZERO", x))), [("ISZERO", x), ("ISZERO", ("ISZERO", x))]),
             (("NOT", ("NOT", x)), [("NOT", x)]), (("SUB", c("0"), ("SUB", c("0"), x)), [("SUB", c("0"), x)])]
    for cmp_ in ("LT", "GT", "SLT", "SGT", "EQ", "SUB", "XOR"):
        pats.append((("ISZERO", (cmp_, x, y)), [(cmp_, x, y)]))
    for cmp_ in ("LT", "GT", "EQ"):
        pats += [(("ISZERO", (cmp_, x, c("0"))), [(cmp_, x, c("0"))]), (("ISZERO", (cmp_, c("0"), x)), [(cmp_, c("0"), x)]),
                 (("ISZERO", (cmp_, x, c("1"))), [(cmp_, x, c("1"))]), (("ISZERO", (cmp_, c("1"), x)), [(cmp_, c("1"), x)])]
    pats += [(("EQ", ("ISZERO", x), c("0")), [("ISZERO", x)]), (("EQ", c("1"), ("ISZERO", x)), [("ISZERO", x)]),
             (("EQ", c("1"), ("LT", x, y)), [("LT", x, y)]), (("EQ", ("GT", x, y), c("0")), [("GT", x, y)]),
             (("AND", x, ("AND", x, y)), [("AND", x, y)]), (("AND", ("AND", x, y), y), [("AND", x, y)]), (("OR", x, ("OR", x, y)), [("OR", x, y)]),
             (("OR", ("AND", x, y), x), [("AND", x, y)]), (("AND", ("OR", x, y), x), [("OR", x, y)]), (("AND", c("ff"), ("AND", c("ffff"), x)), [("AND", c("ffff"), x)]),
             (("SUB", ("ADD", x, c("1")), c("1")), [("ADD", x, c("1"))]), (("ADD", ("SUB", x, c("1")), c("1")), [("SUB", x, c("1"))]),
             (("ADD", c("2"), ("ADD", c("3"), x)), [("ADD", c("3"), x)]), (("MUL", c("2"), ("MUL", c("3"), x)), [("MUL", c("3"), x)]),
             (("SHR", c("8"), ("SHL", c("8"), x)), [("SHL", c("8"), x)]), (("SHL", c("8"), ("SHR", c("8"), x)), [("SHR", c("8"), x)]),
             (("SHL", c("4"), ("SHL", c("8"), x)), [("SHL", c("8"), x)]), (("SHR", c("4"), ("SHR", c("8"), x)), [("SHR", c("8"), x)]),
             (("AND", c("ff"), ("SHR", c("f8"), x)), [("SHR", c("f8"), x)]), (("EXP", c("2"), ("ADD", x, y)), [("ADD", x, y)]),
             (("MUL", ("EXP", c("2"), x), y), [("EXP", c("2"), x)]), (("DIV", y, ("EXP", c("2"), x)), [("EXP", c("2"), x)]),
             (("ISZERO", ("ISZERO", ("LT", x, y))), [("ISZERO", ("LT", x, y)), ("LT", x, y)]),
             (("ISZERO", ("ISZERO", ("EQ", x, y))), [("ISZERO", ("EQ", x, y))])]
    out = []
    for outer, inners in pats:
        n_in = 1 + max([t[1] for t in _leaves(outer) if t[0] == 'in'] + [-1])
        variants = [[outer]]
        for inner in inners:
            variants += [[outer, inner], [inner, outer], [outer, ("ADD", inner, ('in', 0) if n_in else c("5"))], [outer, ("ISZERO", inner)],
                         [("ADD", outer, inner)]]
        for outs in variants:
            try:
                out.append(compile_terms(outs, max(n_in, 1)))
            except ValueError:
                pass
    seen, res = set(), []
    for b in out:
        if b not in seen:
            seen.add(b)
            res.append(b)
    return res


def _leaves(t):
    if t[0] in ('in', 'c'):
        return [t]
    r = []
    for a in t[1:]:
        r += _leaves(a)
    return r


def random_blocks(n, seed=1, maxlen=22, profile='mixed'):
    """deterministic pseudo-random blocks over a vocabulary that mixes arithmetic, stack shuffles, constants that are memory
    offsets / storage keys near each other (aliasing), loads, stores, hashes, environment reads and a few instructions at which
    blocks are split; every block is executable on a deep enough stack (depth is tracked loosely, the callers compute it)"""
    import random
    rnd = random.Random(seed)
    consts = ["0", "1", "2", "1f", "20", "21", "40", "5", "ff", "100", "ffffffff", "ff" * 20, "ff" * 32, "80" + "00" * 31]
    zero = ["CALLER", "CALLVALUE", "ADDRESS", "ORIGIN", "TIMESTAMP", "NUMBER", "CALLDATASIZE", "CHAINID", "SELFBALANCE"]
    un = ["ISZERO", "NOT", "MLOAD", "SLOAD", "POP", "BALANCE", "CALLDATALOAD"]
    bi = ["ADD", "SUB", "MUL", "DIV", "SDIV", "MOD", "SMOD", "AND", "OR", "XOR", "LT", "GT", "SLT", "SGT", "EQ", "SHL", "SHR", "SAR", "BYTE",
          "SIGNEXTEND", "EXP"]
    mem = ["MSTORE", "MSTORE8", "SSTORE", "KECCAK256"]
    ter = ["ADDMOD", "MULMOD"]
    split = ["LOG0", "LOG1", "GAS", "MSIZE"]
    out = []
    for _ in range(n):
        L = rnd.randint(3, maxlen)
        b = []
        for _ in range(L):
            r = rnd.random()
            if profile == 'memory':
                r = r * 0.85 if r > 0.5 else r
            if r < 0.22:
                b.append("PUSH " + rnd.choice(consts))
            elif r < 0.28:
                b.append(rnd.choice(zero))
            elif r < 0.40:
                b.append("DUP%d" % rnd.randint(1, rnd.choice([2, 4, 8])))
            elif r < 0.50:
                b.append("SWAP%d" % rnd.randint(1, rnd.choice([2, 4, 8])))
            elif r < 0.62:
                b.append(rnd.choice(un))
            elif r < 0.80:
                b.append(rnd.choice(bi if profile != 'memory' else bi[:3] + mem))
            elif r < 0.93:
                b.append(rnd.choice(mem))
            elif r < 0.96:
                b.append(rnd.choice(ter))
            else:
                b.append(rnd.choice(split) if profile != 'memory' else rnd.choice(mem))
        out.append(' '.join(b))
    return out
