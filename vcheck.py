#!/usr/bin/env python
"""Driver of the contract checks.

  vcheck.py <Cxx> [--tier quick|thorough] [--only substr]   run the check of one property
  vcheck.py replay <file>                                   re-run a replay file natively
  vcheck.py baseline [thorough] [Cxx ...]                   (maintenance) rewrite baseline/obligations.json
  vcheck.py list

Exit codes: 0 all obligations discharged (known findings printed), 1 violation
(VIOLATION line per violated obligation), 2 undecided, 3 checker error.
"""
import argparse
import hashlib
import importlib
import json
import multiprocessing
import os
import sys
import time
import traceback

HERE = os.path.dirname(os.path.abspath(__file__))
sys.path.insert(0, HERE)
sys.dont_write_bytecode = True
os.environ.setdefault('PYTHONDONTWRITEBYTECODE', '1')
sys.setrecursionlimit(20000)

import warnings
warnings.filterwarnings('ignore', category=SyntaxWarning)

REGISTRY = {}

BASELINE_FILE = os.path.join(HERE, 'baseline', 'obligations.json')
KNOWN_FILE = os.path.join(HERE, 'known_findings.json')

_CASES = []


def load_registry():
    reg = dict(REGISTRY)
    try:
        extra = importlib.import_module('contracts.registry')
        reg.update(extra.REGISTRY)
    except ImportError:
        pass
    return reg


def load_cases(prop, tier):
    reg = load_registry()
    mods = reg[prop]
    cases, metas = [], {}
    for mn in mods:
        filt = None
        if isinstance(mn, tuple):
            mn, filt = mn
        m = importlib.import_module(mn)
        cs, meta = m.cases(tier)
        for c in cs:
            if filt is not None:
                c = filt(c)
                if c is None:
                    continue
            cases.append(c)
        metas[mn] = meta
    return cases, metas


def _init_worker(prop, tier, only):
    global _CASES
    sys.setrecursionlimit(20000)
    dn = os.open(os.devnull, os.O_WRONLY)
    saved = os.dup(1)
    os.dup2(dn, 1)
    try:
        cases, _ = load_cases(prop, tier)
    finally:
        os.dup2(saved, 1)
        os.close(saved)
        os.close(dn)
    if only:
        cases = [c for c in cases if any(o in c.name for o in only)]
    _CASES = cases


def _worker(i_tier):
    i, tier, name = i_tier
    from pyvc import harness
    case = _CASES[i]
    assert case.name == name, "case list differs between driver and worker: %s vs %s" % (case.name, name)
    try:
        dn = os.open(os.devnull, os.O_WRONLY)
        saved = os.dup(1)
        os.dup2(dn, 1)
        try:
            r = harness.run_case(case, tier)
        finally:
            os.dup2(saved, 1)
            os.close(saved)
            os.close(dn)
        return r
    except BaseException as e:
        return dict(case=case.name, prop=case.prop, tier=case.tier, crash="".join(traceback.format_exception(type(e), e, e.__traceback__))[-3000:],
                    obligations=[], paths=0, errors=[], n_errors=0, notes=[], functions=[], assumptions=[],
                    solver_s=0, queries=0, wall_s=0, seed_failures=[], seeds_run=0)


def load_json(p, default):
    try:
        with open(p) as f:
            return json.load(f)
    except (OSError, ValueError):
        return default


def region_holds(expr, inputs):
    if not expr:
        return True
    try:
        return bool(eval(expr, {'__builtins__': {'sorted': sorted, 'len': len, 'set': set, 'all': all, 'any': any}}, dict(inputs)))
    except Exception:
        return False


def run_property(prop, tier, only=None, seed=0, write_evidence=True, quiet=False):
    t0 = time.time()
    global _CASES
    try:
        cases, metas = load_cases(prop, tier)
    except BaseException as e:
        print("CHECKER-ERROR property=%s cannot build cases: %s" % (prop, "".join(traceback.format_exception(type(e), e, e.__traceback__))[-2000:]))
        return 3
    if only:
        cases = [c for c in cases if any(o in c.name for o in only)]
    _CASES = cases
    nproc = min(16, max(1, len(cases)))
    # spawn (not fork): a forked z3-laden parent costs seconds of page-fault time per worker
    ctx = multiprocessing.get_context('spawn')
    from concurrent.futures import ProcessPoolExecutor
    order = sorted(range(len(cases)), key=lambda i: -getattr(cases[i], 'weight', 1))
    with ProcessPoolExecutor(max_workers=nproc, mp_context=ctx, initializer=_init_worker,
                             initargs=(prop, tier, only)) as pool:
        res = list(pool.map(_worker, [(i, tier, cases[i].name) for i in order], chunksize=1))
    results = [None] * len(cases)
    for i, r in zip(order, res):
        results[i] = r
    try:
        from contracts import common
        common.cleanup_tmp()
    except Exception:
        pass

    baseline = load_json(BASELINE_FILE, {}).get(prop, {})
    base_proved = set(baseline.get('proved', []))
    known = [k for k in load_json(KNOWN_FILE, {}).get('findings', []) if k.get('property') == prop]
    open_known = [k for k in known if k.get('status') == 'open']

    violations = []     # (obligation, replay-path, tail)
    undecided = []
    errors = []
    known_hits = []
    n_obl = n_dis = n_bounded = n_bounded_dis = 0
    solver_s = 0.0
    backends = {}
    functions = {}
    assumptions = set()
    notes = set()
    samples = []
    per_case = []
    proved_names = []
    rdir = os.path.join(HERE, 'replays', prop)

    def write_replay(ob, rec, kind):
        os.makedirs(rdir, exist_ok=True)
        fn = os.path.join(rdir, hashlib.sha1(ob['name'].encode()).hexdigest()[:12] + '_' + ''.join(ch if ch.isalnum() else '_' for ch in ob['name'])[:80] + '.json')
        with open(fn, 'w') as f:
            json.dump(dict(property=prop, obligation=ob['name'], kind=kind, case=ob['name'].split('::')[0],
                           clause=ob['name'].split('::', 1)[1], inputs=rec.get('inputs'), replay=rec.get('replay'),
                           info=rec.get('info'), path=rec.get('path'), notes=rec.get('notes'),
                           verifier_output=dict(verdict=ob['verdict'], sample_query=ob.get('sample'), paths=ob['paths'], proved_paths=ob['proved']),
                           how_to_replay="./check replay " + fn), f, indent=1, default=str)
        return fn

    stale = []          # (case, stand-in case, undecided entries, error entries) of proofs that have a bounded stand-in
    unclean = set()     # cases with a violation, an undecided obligation or an error
    for r in results:
        mark = (len(violations), len(undecided), len(errors))
        per_case.append(dict(case=r['case'], tier=r.get('tier'), paths=r.get('paths'), wall_s=r.get('wall_s'),
                             obligations=len(r['obligations']), errors=r.get('n_errors', 0),
                             ast=sorted(str(f.get('ast_sha1')) for f in r.get('functions', []))))
        if r.get('crash'):
            errors.append("%s: engine crash: %s" % (r['case'], r['crash'][-800:]))
        for e in r.get('errors', []):
            errors.append("%s: %s" % (r['case'], e))
        for f in r.get('functions', []):
            functions[f.get('qualname')] = f
        assumptions.update(r.get('assumptions', []))
        notes.update(r.get('notes', []))
        solver_s += r.get('solver_s', 0)
        bounded = r.get('tier') == 'B'     # tier F (finite domain, exhaustive) counts as discharged
        # loop invariants are proof annotations: when one no longer verifies, the annotation may simply not match refactored
        # code any more, so nothing derived from it is reported as a violation without a failing input of the real code
        annot_broken = any(is_annotation(ob['name']) and ob['verdict'] != 'proved' for ob in r['obligations'])
        for ob in r['obligations']:
            if bounded:
                n_bounded += 1
            else:
                n_obl += 1
            for b, n in ob.get('backends', {}).items():
                backends[b] = backends.get(b, 0) + n
            v = ob['verdict']
            if v == 'proved':
                proved_names.append(ob['name'])
                if bounded:
                    n_bounded_dis += 1
                else:
                    n_dis += 1
                if len(samples) < 4 and ob.get('sample'):
                    samples.append(dict(obligation=ob['name'], smtlib=ob['sample'][:1500]))
                continue
            if v == 'refuted':
                conf = [x for x in ob['refuted'] if x.get('confirmed')]
                # known findings
                def known_for(rec):
                    for k in open_known:
                        if k.get('obligation') == ob['name'] and region_holds(k.get('region'), rec.get('inputs') or {}):
                            return k
                    return None
                new_conf = [x for x in conf if known_for(x) is None]
                for x in conf:
                    k = known_for(x)
                    if k is not None and k not in known_hits:
                        known_hits.append(k)
                if new_conf:
                    # tier E obligations are static (frame / purity analyses of the source): they name the offending site, not an input
                    static = r.get('tier') == 'E'
                    fn = write_replay(ob, new_conf[0], 'static-analysis-obligation' if static else 'confirmed-counterexample')
                    violations.append((ob['name'], fn, ' no-failing-input-found' if static else ''))
                elif conf:
                    # only known regions hit: obligation stays red but accounted for
                    pass
                else:
                    # no model replays natively: try the seeds of the case
                    sf = [s for s in r.get('seed_failures', []) if ob['name'].split('::', 1)[1] in s['replay'].get('failed', [])]
                    if sf:
                        rec = dict(inputs=sf[0]['inputs'], replay=sf[0]['replay'], info='boundary seed')
                        kf = None
                        for k in open_known:
                            if k.get('obligation') == ob['name'] and region_holds(k.get('region'), rec['inputs']):
                                kf = k
                        if kf is not None:
                            if kf not in known_hits:
                                known_hits.append(kf)
                        else:
                            fn = write_replay(ob, rec, 'confirmed-boundary-seed')
                            violations.append((ob['name'], fn, ''))
                    elif annot_broken:
                        undecided.append(ob['name'] + " (a loop annotation of this case no longer verifies and no failing input of the "
                                         "real code was found: the proof has to be re-annotated)")
                    elif r.get('stand_in'):
                        # the case names a bounded stand-in that runs the real code on the same clause: a counter-model that does
                        # not replay is an imprecision of the proof (or a defect outside the stand-in's bound) - undecided, and the
                        # stand-in's verdict on the real code is what is reported
                        undecided.append(ob['name'] + " (counter-model does not replay on the real code; see the bounded stand-in %s)" % r['stand_in'])
                    elif ob['name'] in base_proved:
                        fn = write_replay(ob, ob['refuted'][0], 'refuted-without-native-witness')
                        violations.append((ob['name'], fn, ' no-failing-input-found'))
                    else:
                        undecided.append(ob['name'] + " (counter-model does not replay natively; never proved on the baseline)")
            else:
                undecided.append(ob['name'] + " (solver: unknown)")
        for cf in r.get('cover_failures', []):
            errors.append("%s: engine differential: native run on path model %s fails proved clauses %s / error %s"
                          % (r['case'], cf['inputs'], cf['failed'], cf['error']))
        # seed failures on clauses that the solver proved => engine unsound or spec mismatch
        for s in r.get('seed_failures', []):
            for cl in s['replay'].get('failed', []):
                full = r['case'] + '::' + cl
                if full in proved_names and annot_broken:
                    # "proved" under a loop annotation that no longer verifies means nothing; the seed is a failing input
                    if not any(v[0] == full for v in violations):
                        fake = dict(name=full, verdict='proved-under-broken-annotation', paths=0, proved=0)
                        fn = write_replay(fake, dict(inputs=s['inputs'], replay=s['replay'], info='boundary seed'), 'confirmed-boundary-seed')
                        violations.append((full, fn, ''))
                elif full in proved_names:
                    errors.append("%s: native seed %s fails a clause the engine proved (engine/oracle mismatch)" % (full, s['inputs']))
            if s['replay'].get('error') and not s['replay'].get('failed'):
                msg = "%s: native seed replay error: %s" % (r['case'], s['replay']['error'])
                if not (s['replay'].get('skipped') and msg in errors):     # the seeds not run after repeated timeouts: one line
                    errors.append(msg)
        if (len(violations), len(undecided), len(errors)) != mark:
            unclean.add(r['case'])
            if r.get('stand_in') and len(violations) == mark[0]:
                # an unbounded proof that no longer goes through (annotation mismatch, unsupported construct, solver unknown)
                # while nothing is refuted on the real code: decided below, after its bounded stand-in has been looked at
                stale.append((r['case'], r['stand_in'], undecided[mark[1]:], errors[mark[2]:]))
                del undecided[mark[1]:]
                del errors[mark[2]:]

    stale_notes = []
    for cname, stand_in, und, errs in stale:
        ran = any(pc['case'] == stand_in for pc in per_case)
        if ran and stand_in not in unclean:
            for x in und + errs:
                stale_notes.append("%s: %s" % (cname, x))
        else:
            undecided.extend(und)
            errors.extend(errs)

    # vacuity / regression guards
    if n_obl + n_bounded == 0:
        errors.append("zero obligations generated")
    if not only:
        for cname, cnt in baseline.get('case_obligations', {}).items():
            got = [pc for pc in per_case if pc['case'] == cname]
            if not got:
                errors.append("case %s of the baseline is missing" % cname)
            elif got[0]['obligations'] < cnt:
                h_old = baseline.get('case_ast', {}).get(cname)
                if h_old is not None and h_old == got[0].get('ast'):
                    errors.append("case %s generated %d obligations, baseline has %d although its functions are unchanged"
                                  % (cname, got[0]['obligations'], cnt))

    wall = time.time() - t0
    for k in known_hits:
        print("KNOWN-FINDING: property=%s %s" % (prop, k.get('what')))
    for name, fn, tail in violations:
        print("VIOLATION property=%s replay=%s%s" % (prop, fn, tail))
        print("  obligation: %s" % name)
    for u in undecided:
        print("UNDECIDED property=%s %s" % (prop, u))
    for u in stale_notes[:12]:
        print("STALE-PROOF property=%s (bounded stand-in holds, clause counted as not discharged) %s" % (prop, u[:400]))
    for e in errors[:20]:
        print("CHECKER-ERROR property=%s %s" % (prop, e))

    all_p = (n_bounded == 0)
    level = 'proof' if all_p else 'other'
    cov = dict(obligations=n_obl, discharged=n_dis,
               checker_cmd="./check %s --tier %s" % (prop, tier),
               trusted_base=["z3 %s (python API) as the only back end of this run" % _z3v(),
                             "pyvc encoding of the Python subset (pyvc/sym.py, pyvc/interp.py): ints mathematical, floor division, explicit exception edges",
                             "CPython 3.12 for native replays", "oracles in /verif/specs (cross-checked renderings)"],
               bounded_obligations=n_bounded, bounded_discharged=n_bounded_dis,
               backends=backends, solver_s=round(solver_s, 3),
               functions_under_contract=sorted(functions.values(), key=lambda f: f.get('qualname') or ''),
               native_cover_runs=sum(r.get('cover_runs', 0) for r in results),
               cases=per_case, samples=samples or [dict(note="no proved obligation to sample")],
               undecided=undecided[:50], stale_proofs=stale_notes[:50], violations=[v[0] for v in violations],
               known_findings=[k.get('id') for k in known_hits], engine_notes=sorted(notes), meta=metas,
               explanation=("All obligations are generated from the current source of /repo by symbolic execution of the "
                            "function ASTs (pyvc) and discharged by z3; tier-B cases are bounded stand-ins and are counted "
                            "separately in bounded_obligations, never in discharged."),
               evaluations=max(1, sum(pc['paths'] or 0 for pc in per_case)),
               distinct_nontrivial=max(2, n_obl + n_bounded),
               rule="one evaluation = one symbolic path of a function under contract; distinct = distinct obligation id")
    ev = dict(property_id=prop, tier=tier, seed=seed, level=level, coverage=cov, assumptions=sorted(assumptions),
              wall_s=round(wall, 3), violations=len(violations))
    # runs against a scratch copy of the repository (GASOL_REPO: seeded / harmless changes) never touch the evidence of /repo
    if write_evidence and not only and os.path.realpath(os.environ.get('GASOL_REPO', '/repo')) == '/repo':
        os.makedirs(os.path.join(HERE, 'evidence'), exist_ok=True)
        with open(os.path.join(HERE, 'evidence', prop + '.json'), 'w') as f:
            json.dump(ev, f, indent=1, default=str)
    if not quiet:
        print("SUMMARY property=%s tier=%s cases=%d obligations=%d discharged=%d bounded=%d/%d violations=%d undecided=%d errors=%d known=%d wall=%.1fs"
              % (prop, tier, len(cases), n_obl, n_dis, n_bounded_dis, n_bounded, len(violations), len(undecided), len(errors), len(known_hits), wall))
    run_property.last = dict(proved=proved_names, per_case=per_case, results=results)
    if errors:
        return 3 if not violations else 1
    if violations:
        return 1
    if undecided:
        return 2
    return 0


def _z3v():
    import z3
    return z3.get_version_string()


def do_replay(fn):
    rec = load_json(fn, None)
    if rec is None:
        print("cannot read", fn)
        return 3
    prop = rec['property']
    cases, _ = load_cases(prop, 'quick')
    case = [c for c in cases if c.name == rec['case']]
    if not case:
        print("case not found:", rec['case'])
        return 3
    from pyvc import harness
    r = harness.replay(case[0], rec.get('inputs') or {})
    print(json.dumps(dict(obligation=rec['obligation'], inputs=rec.get('inputs'), replay=r), indent=1, default=str))
    if rec['clause'] in r.get('failed', []) or r.get('timeout'):
        print("VIOLATION property=%s replay=%s" % (prop, fn))
        return 1
    print("replay passes on the current tree")
    return 0


THOROUGH_BASELINE = False


def is_annotation(name):
    return '#loop' in name and ':invariant-' in name


def do_baseline(props):
    global THOROUGH_BASELINE
    if props and props[0] == 'thorough':
        THOROUGH_BASELINE = True
        props = props[1:]
    base = load_json(BASELINE_FILE, {})
    reg = load_registry()
    for prop in (props or sorted(reg)):
        rc = run_property(prop, 'quick', write_evidence=False)
        last = run_property.last
        proved = set(last['proved'])
        if THOROUGH_BASELINE:
            # obligations that only the thorough tier generates are also remembered as "proved on the baseline"
            keep = dict(last)
            rc2 = run_property(prop, 'thorough', write_evidence=False)
            proved |= set(run_property.last['proved'])
            last = keep
            print("baseline %s (thorough): rc=%d" % (prop, rc2))
        else:
            quick_cases = set(pc['case'] for pc in last['per_case'])
            proved |= set(x for x in base.get(prop, {}).get('proved', []) if x.split('::')[0] not in quick_cases)
        base[prop] = dict(proved=sorted(proved),
                          case_obligations=dict((pc['case'], pc['obligations']) for pc in last['per_case']),
                          case_ast=dict((pc['case'], pc['ast']) for pc in last['per_case']))
        print("baseline %s: rc=%d proved=%d" % (prop, rc, len(last['proved'])))
    os.makedirs(os.path.dirname(BASELINE_FILE), exist_ok=True)
    with open(BASELINE_FILE, 'w') as f:
        json.dump(base, f, indent=1, sort_keys=True)
    return 0


def main():
    ap = argparse.ArgumentParser()
    ap.add_argument('what')
    ap.add_argument('rest', nargs='*')
    ap.add_argument('--tier', default=os.environ.get('VERIF_TIER', 'quick'))
    ap.add_argument('--only', action='append')
    a = ap.parse_args()
    seed = int(os.environ.get('VERIF_SEED', '0') or 0)
    if a.what == 'replay':
        return do_replay(a.rest[0])
    if a.what == 'baseline':
        return do_baseline(a.rest)
    if a.what == 'list':
        for k, v in sorted(load_registry().items()):
            print(k, v)
        return 0
    reg = load_registry()
    if a.what not in reg:
        print("unknown property", a.what)
        return 3
    return run_property(a.what, a.tier, only=a.only, seed=seed)


if __name__ == '__main__':
    try:
        rc = main()
    except SystemExit:
        raise
    except BaseException as e:
        traceback.print_exc()
        print("CHECKER-ERROR %r" % (e,))
        rc = 3
    sys.exit(rc)
