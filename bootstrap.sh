#!/bin/sh
# Builds /verif/.venv : python 3.12 overlay of /venv (repo deps) + z3-solver from the offline wheelhouse.
# Idempotent; nothing is fetched from the network.
set -e
HERE="$(cd "$(dirname "$0")" && pwd)"
V="$HERE/.venv"
if [ -x "$V/bin/python" ] && "$V/bin/python" -c "import z3, networkx" >/dev/null 2>&1; then
  exit 0
fi
rm -rf "$V"
/venv/bin/python -m venv --without-pip "$V"
echo "import site; site.addsitedir('/venv/lib/python3.12/site-packages')" > "$V/lib/python3.12/site-packages/base.pth"
PIP_NO_INDEX=1 /venv/bin/python -m pip --python "$V/bin/python" install -q --no-index --find-links /opt/veriftools/wheels z3-solver >/dev/null
"$V/bin/python" -c "import z3; assert z3.get_version_string().startswith('5.')"
