#!/bin/sh
# usage: mutcheck.sh <patch-or-sedscript> <Cxx> [more check args]
# applies a patch (git apply) to a scratch copy of /repo's HEAD+worktree and runs ./check against it
P="$1"; shift
S="$(mktemp -d /tmp/gasol-scratch-XXXXXX)"
git -C /repo worktree add -q --detach "$S/r" HEAD >/dev/null 2>&1 || { echo "cannot create scratch worktree"; exit 3; }
( cd "$S/r" && git apply "$P" ) || { echo "patch does not apply"; git -C /repo worktree remove --force "$S/r"; rm -rf "$S"; exit 3; }
GASOL_REPO="$S/r" /verif/check "$@"
RC=$?
git -C /repo worktree remove --force "$S/r"; rm -rf "$S"
exit $RC
