#!/bin/sh
# usage: refcheck.sh <Cxx> : runs the check of <Cxx> against every behaviour-preserving patch in /tmp/ref_<Cxx>/<k>/patch.diff
P="$1"
for d in /tmp/ref_$P/*/; do
  [ -f "$d/patch.diff" ] || continue
  echo "== $d"
  /verif/tools/mutcheck.sh "$d/patch.diff" "$P" 2>&1 | grep -E "^(VIOLATION|SUMMARY|UNDECIDED|CHECKER|STALE|  obligation)|apply" | cut -c1-400
done
