#!/usr/bin/env python3
"""Regenerates /verif/MANIFEST.json from the table below (single source for check metadata)."""
import json, os
HERE = os.path.dirname(os.path.dirname(os.path.abspath(__file__)))

TRUST = ("Trusted: z3 5.1; the pyvc encoding of the Python subset (ints mathematical, floor division, explicit exception edges), "
         "guarded by a native CPython differential on a model of every explored path; oracles in /verif/specs. ")

CHECKS = {
 'C01': dict(
  technique="composition of contracts: keep-or-revert gate contracts on the real drivers of gasol_asm.py (callee contracts as stubs, trace as ghost state; VCs from the real AST, z3), finite-domain opcode/operator and split-set tables, plus a bounded end-to-end run judged by a reference EVM executor; premises C02, C03, C05",
  category='other', ref='DESIGN.md section 4 (C01)',
  text="Proved for all verdicts/outcomes: a block is emitted in place of the input only if the built-in re-check answered equal, otherwise the very same input block is kept (optimize_asm_contract, optimize_isolated_asm_block), a sub-block replacement is recorded only under the acceptance test and never for a sub-block that accesses memory in front of an MSIZE of the same block; every opcode of the vocabulary is specified as itself with the operand order of the opcode table (finite, complete) and every externally visible opcode ends a segment. The semantic content (checker sound, specification faithful) is imported from C05/C02/C03. Additionally a bounded end-to-end comparison of emitted vs input block on sampled machine states.",
  note=TRUST + "Explicitly partial: faithfulness of the string front end is covered only by the bounded tiers of C02/C03 and the end-to-end run; Max-SMT back end not exercised (no solver installed)."),
 'C02': dict(
  technique="contract on the alias/overlap kernel are_dependent (may-overlap implies dependent, all kind pairs, all constant addresses symbolic; z3) plus a bounded stand-in: every linearization of the exported dependences of corpus blocks evaluated against a reference executor",
  category='other', ref='DESIGN.md section 4 (C02)',
  text="are_dependent answers True whenever the byte ranges / keys of a store and another access may intersect (proved for all constant offsets and lengths, and for symbolic addresses). For a corpus of memory/storage blocks and 4 option sets, every schedule of the specification's operations consistent with its dependences and data flow reproduces stack, memory and storage of the block on sampled states.",
  note=TRUST + "Bounded stand-in for generate_dependences / simplify_memory family (corpus of ~70 blocks); precondition u_dict = {} in the kernel contract (sub-term heuristic for symbolic addresses not covered); term construction of the front end assumed."),
 'C03': dict(
  technique="contract-based deductive verification: per-opcode postconditions on evaluate_expression / evaluate_expression_ter / apply_transform / check_size against an independent EVM word-semantics oracle; VCs generated from the real AST, discharged by z3",
  category='proof', ref='DESIGN.md section 4 (C03)',
  text="For all 256-bit operand values: every constant folding and every local rewrite rule of the front end returns the EVM value of the opcode (wrap-around, division by zero, signed ops, shifts >= 256), never raises, never returns a non-word; size gates of check_size / NOT against an independent byte table. Proved per function and per opcode, unbounded in the operand values.",
  note=TRUST + "Bit-vector lemmas transferred to Int by definition of band/bor/bxor. Opcode->operator table obtained by running the real translation (finite domain). Context rules (apply_cond_transformation) and the fixpoint drivers are not under contract yet."),
 'C04': dict(
  technique="bounded stand-in (no deductive contract on the SMSgreedy emitters yet): the real greedy_from_json on ~700 (thorough: ~4 500) specifications produced by the real front end, each successful result executed by an independent abstract stack machine",
  category='other', ref='DESIGN.md section 4 (C04)',
  text="Bounded: whenever the greedy search reports error = 0 on a specification of the corpora (hand-written, memory/storage, rule shapes, random blocks with deep stacks and many stores, several stores of one kind of which only some are ordered; 3 splitting policies in thorough), the returned ids never underflow, use only DUP/SWAP depths 1..16, give every instruction exactly the operands the specification names, execute every store once, respect every ordering constraint and end in the specified stack; the specification passed in is not altered.",
  note="Tier B only. Trusted: specs/stackexec.py (abstract stack machine). The heuristic emitters are not under contract; their failures are contained (C10)."),
 'C05': dict(
  technique="recursion-on-contract proof of compare_variables (one frame with arbitrary symbolic arguments, recursive calls replaced by the function's own contract, uninterpreted denotation functions; z3), gate contract on compare_asm_block_asm_format, plus the whole checker run on semantic mutants judged by a reference executor (bounded)",
  category='other', ref='DESIGN.md section 4 (C05)',
  text="compare_variables returns True only for variables with equal denotation in both specifications, for every opcode arity and well-formed instruction pair (proved), is reflexive and never raises; the block comparison answers equal only if the specification checker does and the prefix/suffix items coincide, never raises, and answers equal for one block object given as both arguments (the old block is analysed under its own name). Bounded: ~380 distinguishable mutants of 48 corpus blocks are all rejected; every block equals itself (checker and the tool's own gate); the three instruction classes of a block are filters of the whole instruction list (all sequences up to length 3/4 over 8 names).",
  note=TRUST + "compare_dependences and the injectivity of the store matching are covered by the bounded tier only; forves adapter not covered (external binary absent)."),
 'C06': dict(
  technique="step lemmas on the real constraint generators: each generator is run on concrete structural parameters (stack bound, depth, arity), its formula object is turned into a z3 formula and 'wf_j and constraint and t_j = theta implies step defined, wf_j+1 and stack_j+1 = step(stack_j)' is decided for ALL assignments; plus bounded model enumeration of full encodings decoded by the tool's own reader, an independent SMT-LIB parser on the emitted text, and the model reader on adversarial model texts",
  category='other', ref='DESIGN.md section 4 (C06)',
  text="For all 18 stack-constraint generators (both stack representations), every stack bound 2..7 (thorough 2..18), every DUP/SWAP depth and arities 0..3: any assignment satisfying the generated constraint performs exactly the stack step of the instruction, without underflow/overflow, and keeps the stack representation well formed. Bounded: all enumerated models (14 000+) of 350+ full encodings under 8-12 option sets plus a covering array of 11 sets in which every pair of values of two hard-constraint options occurs (-push-basic excluded) decode to realizing sequences; the emitted SMT-LIB is accepted by z3's parser with every symbol declared once; get_value returns each variable's own definition for prefix-related names in any order.",
  note="Parameter-bounded (structure) but unbounded in assignments; composition over positions is an induction meta-step. Trusted: specs/formula.py translation, z3. Pre-order constraint generators are covered by the model enumeration only."),
 'C07': dict(
  technique="objective-accounting obligations on the real soft-constraint generators decided for all assignments (penalty minus sum of weights is constant), instruction cost attributes against independent tables, plus bounded model-level stand-ins: soft minus cost constant over enumerated models, optimum equal under all pruning/bounds option sets and equal to a brute-force optimum",
  category='other', ref='DESIGN.md section 4 (C07)',
  text="Decided for every assignment within enumerated (weights, position-window) families: both soft-constraint generators price a sequence by the sum of its instruction weights up to a constant; the weights are the instruction costs of the chosen criterion (independent tables). Bounded: on small specifications soft(M) - cost(decode(M)) is constant over all enumerated models, a Max-SMT problem is produced and its hard constraints are satisfiable (read-modify-write blocks included), and the optimum has the same true cost under 5-9 option sets and equals the brute-force optimum over all realizing sequences within the bound.",
  note="The universal optimum-preservation claim (bounds and pruning never remove all optimal programs, for every specification) is NOT decided: it quantifies over all realizing sequences; only bounded instances are checked. Costs of dynamic-gas opcodes are taken from the tool's own figure."),
 'C08': dict(
  technique="contract-based deductive verification: postconditions on improves_criterion, block_has_been_optimized, compare_best_block, update_*_count and on the item/block cost functions against independent cost tables (VCs from the real AST, z3), plus a bounded end-to-end stand-in: the whole tool on corpus blocks under the three criteria with gas measured by an independent model (warm/cold accesses on concrete keys, storage write classes, memory expansion)",
  category='proof', ref='DESIGN.md section 4 (C08)',
  text="For all cost figures: a replacement is accepted only if it is no costlier in the chosen criterion and (strictly cheaper, or tied and no worse in every other criterion with one strictly better); candidate selection never returns a beaten candidate; item byte/gas figures equal an independent table for every item name and every operand; totals add exactly the per-block figures; optimize_block hands on, as the block a candidate is measured against, the block built from the original_instrs of the same specification (and that text is the sub-block: obligation of the specification generator, registered here too). Bounded: AsmBlock.gas_spent equals the independent gas model on every sequence of <= 3 (4) accesses to literal slots/accounts; on ~80 blocks and 3 files of several blocks x 3 criteria the emitted block costs no more than its input in bytes, instructions and (on sampled states) gas; the -single-json output holds the optimized code. Three inputs on which a costlier block is accepted under the gas criterion are open known findings (F29-F31: acceptance per sub-block with an empty warm set, storage keys compared as unsimplified strings, loads named by their operands only).",
  note=TRUST + "List-level figures use AbstractSeq summaries (map/filter/sum homomorphisms). The tool's block-level gas figure (AsmBlock.gas_spent with its symbolic warm/cold bookkeeping) is NOT proved equal to real gas - it is not (F29-F31); the end-to-end clause is a bounded stand-in with the gas model of specs/gasmodel.py (empty warm set at block entry, original = current storage value at block entry)."),
 'C09': dict(
  technique="contracts on ids2asm.id_to_asm_bytecode / asm_from_ids (item shape for every instruction kind, canonical hex for all words; VCs from the real AST, z3), the frame clause of the optimize_asm_contract gate, the loop-contract proof of rebuild_optimized_asm_block (see C14) and its bounded shapes, plus a bounded run of the whole tool on synthetic documents checked by an independent reader",
  category='other', ref='DESIGN.md section 4 (C09)',
  text="Proved: every item rebuilt from an instruction id has the instruction's name, numeric pushes carry the canonical lower-case hex of the word (all 2^256 values), pseudo pushes carry the specification's operand, unbound ids become basic stack operations and NOP is dropped; the optimized contract is a deep copy with only the code lists replaced, also in a log replay, where every code section keeps exactly its own blocks; the folding kernels return words (contracts re-run from C03), so an emitted PUSH holds a word. Bounded: on 8 synthetic documents (one of constant operations that leave the word range) x 3-7 option sets the skeleton (tags, JUMPDEST, jumps, terminals, split instructions with all fields), version, auxdata, data sections and source lists are unchanged, emitted items are well formed, pseudo-push operands occur in the input segment, and the output re-reads to itself.",
  note=TRUST + "Whole-document preservation is a bounded stand-in (synthetic documents, greedy back end)."),
 'C12': dict(
  technique="frame obligations discharged by a flow-sensitive effect analysis of the real ASTs (may-read-before-write / must-write sets with call summaries, fixpoint over 400+ functions): every module global that an entry point may read before writing it and that is written between blocks belongs to a reviewed class whose side condition is re-checked mechanically; plus bounded native history replays against pristine processes",
  category='other', ref='DESIGN.md section 4 (C12)',
  text="For the per-block entry points (evm2rbr_compiler, get_subblocks, optimize_asm_block_asm_format, compare_asm_block_asm_format, optimize_asm_block_from_log, greedy_from_json, generate_statistics_info): the result depends only on the arguments, on constants and on option mirrors; statistics accumulators are only self-updated; no mutable default argument is mutated. A new global that is read before being re-initialised, or a reviewed one whose side condition breaks, fails the obligation. Bounded: blocks processed after histories of other blocks give the same specification and code as in a pristine process; every block the parser returns equals the block its own items give alone (all item sequences up to length 4/5 over 7 items incl. PUSHLIB, tag, JUMP).",
  note="Trusted: the effect analysis (frames/effects.py) -- sufficient, over-approximating; limits: dynamic attribute access, exec/eval, aliasing of a global container through a local name. Assumption: one option set per process. The reviewed table is in contracts/c12.py."),
 'C13': dict(
  technique="purity obligations discharged by a scan of the real ASTs of everything reachable from the per-block entry points (run-dependent sources: clock, hash(), id(), uuid, pid, directory listings, resource usage; order-sensitive consumption of set-typed values), each site reviewed with a reason; plus bounded replays under different PYTHONHASHSEED values in separate processes",
  category='other', ref='DESIGN.md section 4 (C13)',
  text="Every call of a run-dependent source and every ordered consumption of a set inside the pipeline is a reviewed site that cannot reach a specification, a greedy sequence or an emitted file; identifier numbering iterates a sorted key list. A new unreviewed site fails. Bounded: ~80 blocks x 2 option sets produce identical specifications (identifiers included) and identical emitted code under 4 (thorough: 11) hash seeds in separate processes and scratch directories.",
  note="Trusted: the purity scan (frames/purity.py), syntactic set-typedness inference; order-independence of the reviewed sites is argued structurally in contracts/c13.py (two sites accepted wrongly at first were real: finding F23, repaired)."),
 'C14': dict(
  technique="contract-based deductive verification of rebuild_optimized_asm_block under loop contracts (inductive invariants selected by the shape of each loop; lists of symbolic length as ropes of slices; VCs from the real AST, z3; counter-models replayed on the real function), plus bounded stand-ins on the real functions for the splitting policies and the stack hand-over between sub-block specifications",
  category='other', ref='DESIGN.md section 4 (C14), section 9',
  text="Proved for ANY number of sub-blocks and prefix, sub-blocks, replacements and suffix of ANY length (the loop over the sub-blocks under a contract of its own with ghost state: accumulated output BC_k, 'nothing replaced so far'; each iteration appends exactly E_k = [split item if the previous sub-block was replaced] ++ (replacement | original segment)): on a well-formed splitting rebuild raises nothing, returns prefix ++ E_0 ++ ... ++ E_(n-1) ++ rest, is the identity when nothing is replaced and leaves its input untouched. The same clauses with the number of sub-blocks enumerated (1-2 quick, 3 thorough) are kept because their counter-models replay on the real function. Bounded: all 7 536 (shape, replacement) combinations up to 3 sub-blocks (thorough: 4) - this case is also the stand-in when the loop annotations stop matching refactored code; for ~290 (block, policy) pairs (lengths 1..46, around the 22-instruction threshold, 3 policies) the reported sub-blocks join to the optimizable instruction list, are cut only at split instructions / stores, every specification key names a sub-block, original_instrs is the sub-block and the stack height change of each specification equals that of its sub-block.",
  note=TRUST + "In the any-number proof the concatenation over all iterations is the ghost of the loop contract (defined by BC_0 = [], BC_(k+1) = BC_k ++ E_k: induction is the meta-step of the invariant rule), replacements are uninterpreted functions of the key block_name + '_' + str(k); items are opaque values observed through to_plain(), deepcopy(item) is an equal item; the PUSHLIB restoration loop is held to a frame contract only. The splitting policies themselves (split_blocks, get_subblocks) are bounded stand-ins."),
 'C15': dict(
  technique="contract on the item parser/serializer pair (to_json(build_asm_bytecode(d)) = d for all field values and optional-field combinations, both PUSH0 settings) and a loop contract on build_blocks_from_asm_representation (item lists of any length; VCs from the real AST, z3; counter-models replayed on the real function), plus bounded stand-ins: synthetic and shipped documents, plain-text spellings",
  category='other', ref='DESIGN.md section 4 (C15), section 9',
  text="Proved for every item name of the vocabulary and all field values: parsing then serializing an item returns the same dictionary (a zero PUSH becomes PUSH0 under the flag, the documented exception; PUSHLIB through real_value). Proved for item lists of ANY length: the blocks returned by build_blocks_from_asm_representation are non-empty and their concatenation is the list of parsed items in order (nothing lost, duplicated or reordered). Bounded: all item-name sequences up to length 4 (5) (also the stand-in of that proof); 3 synthetic documents (pseudo pushes, nested data, contracts without asm) and the shipped examples round-trip; 27 constant spellings keep their value and 50+ blocks survive text -> block -> text.",
  note=TRUST + "In the partition proof build_asm_bytecode is used through its contract, the PUSHLIB numbering dictionary and AsmBlock's source_stack bookkeeping are abstracted, record names are assumed to be names of the opcode table. Document and text round trips are bounded stand-ins."),
 'C10': dict(
  technique="exceptional postconditions: safety/resource obligations of the folding and rule kernels (re-run from C03), containment contracts on greedy_from_json / greedy_standalone / search_optimal and on the drivers (stubs may raise), plus a bounded native run of the whole pipeline on corpus and edge blocks under a time budget",
  category='other', ref='DESIGN.md section 4 (C10)',
  text="Proved: the kernels never raise and never evaluate an unbounded power; any exception of the greedy search becomes an error flag; an exception while optimizing or re-verifying one block keeps that block and the run continues; in a log replay a block that cannot be analysed is kept exactly when the log names none of its sub-blocks. Bounded: 100+ blocks x 4-8 option sets terminate within 20 s, raise nothing and write an output; SMSgreedy.clean_stack returns within 2 s with executable POP/SWAP1..16 on ~1 900 stack shapes of 10..20 elements.",
  note=TRUST + "Termination of the rule fixpoints and time/memory proportionality are not decided (bounded runs only)."),
 'C11': dict(
  technique="gate contract on optimize_asm_from_log (emit only after the re-check, otherwise ValueError and nothing written), contracts on optimize_asm_block_from_log / generate_sfs_dicts_from_log / optimize_block (logged ids are the chosen ones), plus bounded native round trips and tampered logs judged by a reference executor",
  category='other', ref='DESIGN.md section 4 (C11)',
  text="Proved for every log content: replay emits a block only if the checker accepted it against the original, else stops with an error before writing; the replay rebuilds with exactly asm_from_ids(sfs, log[k]); the optimizing run logs the ids of the chosen sequence and only for accepted sub-blocks. Bounded: log round trip is byte-identical and ~250 tampered logs (deletion, duplication, permutation, substitution, foreign ids, block-ending ids inserted; one per operator in quick) give an error or an equivalent document.",
  note=TRUST + "Byte-identity in general additionally needs determinism (C13) and history independence (C12); tamper detection relies on C05."),
 'C17': dict(
  technique="contract-based deductive verification with the PUSH0 flag as a ghost parameter of every contract (is_push0, build_asm_bytecode, generate_push_instruction, id_to_asm_bytecode, item printers/pricing), plus trace contracts on execute_gasol and the contract filter with callee contracts as stubs; z3",
  category='proof', ref='DESIGN.md section 4 (C17)',
  text="For both flag values and all operands: an item is parsed, synthesized, priced or printed as PUSH0 only under the flag (or if the input item already was PUSH0); the same pricing function serves input and output; every plain-text spelling of a zero push is read into the same item under one flag value and priced alike (finite, complete); the flag is set before any entry point runs; unselected contracts are passed through as the same objects.",
  note=TRUST + "Callee contracts used as stubs: parse_asm, optimize_asm_contract, file output. The greedy renderer's display text is not under contract."),
 'C18': dict(
  technique="contract-style obligations on the real constructor/simplifier/equality/printer code interpreted from its AST, with literal values and the valuation of every atom symbolic (z3 decides each shape for all valuations); argument lists enumerated by shape up to a stated bound",
  category='other', ref='DESIGN.md section 4 (C18)',
  text="For every argument-shape tuple within the bound (and/or/distinct up to 3 arguments in quick, 4 in thorough, over 8-10 shapes incl. nested connectors, literals, integer terms) and for ALL literal values and ALL valuations: the constructed formula has the truth value of the unsimplified one, no constructor raises, structural equality implies equal truth value, and translate_formula's text re-read by an independent reader denotes the formula. Bounded in the number/shape of arguments (= the property's own quantifier), unbounded in values.",
  note=TRUST + "Bounded stand-in (tier B): shapes are enumerated, not quantified; the inductive argument over arbitrary argument lists is not discharged."),
}

NA = {
 'C16': "existential/universal statement over all realizing sequences of a specification; no per-function contract within reach expresses it (DESIGN.md section 4, C16)",
}
PENDING = "check not built yet in this round (planned, see DESIGN.md section 4)"
ALL = ['C%02d' % i for i in range(1, 19)]


def main():
    checks = []
    for pid in ALL:
        if pid not in CHECKS:
            continue
        c = dict(CHECKS[pid])
        # the claimed category follows what the check's own evidence reports (proof only if no bounded stand-in is involved)
        try:
            ev = json.load(open(os.path.join(HERE, 'evidence', pid + '.json')))
            c['category'] = ev['level']
        except (OSError, ValueError, KeyError):
            pass
        checks.append({
            "property_id": pid, "quick_cmd": "./check %s --tier quick" % pid, "thorough_cmd": "./check %s --tier thorough" % pid,
            "evidence_file": "/verif/evidence/%s.json" % pid, "replay_cmd_template": "./check replay {path}", "engine": "pyvc",
            "technique": c['technique'],
            "level_claimed": {"category": c['category'], "text": c['text'], "design_ref": c['ref']},
            "level_note": c['note']})
    na = []
    for pid in ALL:
        if pid in CHECKS:
            continue
        na.append({"property_id": pid, "reason": NA.get(pid, PENDING)})
    m = {
        "version": 1,
        "setup_cmd": "./bootstrap.sh",
        "hooks": {"guard": "GASOL_VERIF",
                  "enable": "no source hook is needed: contracts are sidecars in /verif/contracts and the verifier reads the function ASTs from /repo's working tree on every run",
                  "baseline_off_cmd": "cd /repo && /venv/bin/python -m pytest -ra -q -p no:cacheprovider --timeout=900 --continue-on-collection-errors",
                  "source_commits": [], "add_only": True},
        "engines": [{"name": "pyvc", "path": "/verif/pyvc", "serves_properties": sorted(CHECKS),
                     "kind_free_text": "verification-condition generator: symbolic execution of the real function ASTs of /repo (re-parsed on every run) against sidecar contracts in /verif/contracts; obligations discharged by z3 5.1; counter-models replayed natively on the real functions"}],
        "checks": checks,
        "not_applicable": na,
        "notes": "Exit codes of every check: 0 proved, 1 violation (VIOLATION line), 2 undecided, 3 checker error. Fixed defects of /repo are listed in known_findings.json (status fixed).",
    }
    with open(os.path.join(HERE, 'MANIFEST.json'), 'w') as f:
        json.dump(m, f, indent=1)
    print("MANIFEST.json: %d checks, %d not_applicable" % (len(checks), len(na)))


if __name__ == '__main__':
    main()
