#!/usr/bin/env python3
"""Runs every behaviour-preserving change kept under seeded/harmless/<id>-<k>/ against the quick check of the property whose code it
touches (scratch worktree, GASOL_REPO) and writes seeded/harmless/README.md + results.json.  Expected: exit 0, no VIOLATION.
Usage: tools/harmless_table.py [import <Cxx> ...] [id ...]   ('import' copies /tmp/ref_<Cxx>/<k>/ into seeded/harmless first)"""
import json, os, re, shutil, subprocess, sys
HERE = os.path.dirname(os.path.dirname(os.path.abspath(__file__)))
D = os.path.join(HERE, 'seeded', 'harmless')


def main():
    args = sys.argv[1:]
    os.makedirs(D, exist_ok=True)
    if args and args[0] == 'import':
        for prop in args[1:]:
            for k in sorted(os.listdir('/tmp/ref_%s' % prop)):
                src = '/tmp/ref_%s/%s' % (prop, k)
                if os.path.isfile(os.path.join(src, 'patch.diff')):
                    dst = os.path.join(D, '%s-%s' % (prop, k))
                    os.makedirs(dst, exist_ok=True)
                    for f in ('patch.diff', 'notes.md'):
                        if os.path.exists(os.path.join(src, f)):
                            shutil.copy(os.path.join(src, f), os.path.join(dst, f))
        args = ['%s-%s' % (p, k) for p in args[1:] for k in '123' if os.path.isdir(os.path.join(D, '%s-%s' % (p, k)))]
    ids = [] if args == ['--readme-only'] else (args or sorted(d for d in os.listdir(D) if os.path.isdir(os.path.join(D, d))))
    rf = os.path.join(D, 'results.json')
    res = json.load(open(rf)) if os.path.exists(rf) else {}
    for sid in ids:
        prop = sid.split('-')[0]
        p = subprocess.run([os.path.join(HERE, 'tools', 'mutcheck.sh'), os.path.join(D, sid, 'patch.diff'), prop], capture_output=True, text=True, timeout=7200)
        out = p.stdout
        summ = [l for l in out.splitlines() if l.startswith('SUMMARY')]
        res[sid] = dict(property=prop, exit=p.returncode, violations=len(re.findall(r"^VIOLATION", out, re.M)),
                        stale=sorted(set(re.findall(r"^STALE-PROOF property=\S+ \([^)]*\) ([^:]+):", out, re.M))),
                        other=[l[:200] for l in out.splitlines() if l.startswith(('UNDECIDED', 'CHECKER-ERROR'))][:5], summary=summ[-1] if summ else out[-300:])
        print(sid, p.returncode, res[sid]['violations'], res[sid]['stale'], flush=True)
        import fcntl
        with open(rf + '.lock', 'w') as lk:          # several instances may run side by side: merge under a lock
            fcntl.flock(lk, fcntl.LOCK_EX)
            cur = json.load(open(rf)) if os.path.exists(rf) else {}
            cur[sid] = res[sid]
            res = cur
            json.dump(res, open(rf, 'w'), indent=1, sort_keys=True)
    lines = ["# Behaviour-preserving changes and what the checks say about them", "",
             "Each directory holds `patch.diff` and the author's `notes.md` (why the change keeps every observable behaviour, how that was "
             "compared). `tools/harmless_table.py` applies each patch to a scratch worktree and runs the quick check of the property whose "
             "code it touches. Expected: exit 0 and no VIOLATION line. `stale proof` = an unbounded proof whose annotation no longer matched "
             "and whose bounded stand-in decided the clause instead (exit 0, clause counted as not discharged).", "",
             "| change | property | exit | violations | stale proofs | summary |", "|---|---|---|---|---|---|"]
    for sid in sorted(res):
        r = res[sid]
        if 'patch does not apply' in r['summary']:
            lines.append("| %s | %s | - | - | - | does not apply to the final tree any more (the code it refactors was changed by a later fix); it was run when it was written: no alarm |" % (sid, r['property']))
            continue
        m = re.search(r"obligations=(\d+) discharged=(\d+) bounded=(\S+)", r['summary'])
        lines.append("| %s | %s | %d | %d | %s | %s |" % (sid, r['property'], r['exit'], r['violations'], "; ".join(r['stale']) or "-",
                                                       ("%s/%s discharged, bounded %s" % (m.group(2), m.group(1), m.group(3))) if m else r['summary'][:80]))
    open(os.path.join(D, 'README.md'), 'w').write("\n".join(lines) + "\n")


main()
