#!/bin/sh
# usage: confirm_seed.sh <src-dir with patch.diff demo.py notes.md> <seed-id> <property> [run-tests=1]
# Confirms a seeded defect in a scratch worktree of /repo HEAD and stores it under /verif/seeded/<seed-id>/
SRC="$1"; ID="$2"; PROP="$3"; RUNTESTS="${4:-1}"
S="$(mktemp -d /tmp/gasol-seed-XXXXXX)"
git -C /repo worktree add -q --detach "$S/r" HEAD >/dev/null 2>&1 || { echo "cannot create worktree"; exit 3; }
cd "$S/r"
cp "$SRC/demo.py" demo.py
/venv/bin/python demo.py >"$S/demo_clean.log" 2>&1; RC_CLEAN=$?
if ! git apply "$SRC/patch.diff"; then echo "$ID: patch does not apply to HEAD"; git -C /repo worktree remove --force "$S/r"; rm -rf "$S"; exit 2; fi
/venv/bin/python demo.py >"$S/demo_patched.log" 2>&1; RC_PATCHED=$?
/venv/bin/python -c "import gasol_asm" >/dev/null 2>&1; RC_IMPORT=$?
TESTS="skipped"
if [ "$RUNTESTS" = "1" ]; then
  rm -f demo.py
  TESTS="$(/verif/tools/baseline_tests.sh "$S/r" | tail -1)"
fi
mkdir -p /verif/seeded/$ID
cp "$SRC/patch.diff" /verif/seeded/$ID/patch.diff
cp "$SRC/demo.py" /verif/seeded/$ID/demo.py
[ -f "$SRC/notes.md" ] && cp "$SRC/notes.md" /verif/seeded/$ID/notes.md
python3 - "$ID" "$PROP" "$RC_CLEAN" "$RC_PATCHED" "$RC_IMPORT" "$TESTS" "$S" <<'PY'
import json, sys, subprocess
sid, prop, rc_clean, rc_patched, rc_import, tests, S = sys.argv[1:8]
head = subprocess.run(['git','-C','/repo','rev-parse','--short','HEAD'],capture_output=True,text=True).stdout.strip()
tail = lambda p: open(p, errors='replace').read()[-600:]
notes = ''
try: notes = open('/verif/seeded/%s/notes.md' % sid).read()
except OSError: pass
meta = dict(id=sid, breaks_property=prop, based_on_repo_commit=head,
            needs_to_manifest=notes[:1500],
            confirmation=dict(demo_exit_clean=int(rc_clean), demo_exit_patched=int(rc_patched), modules_import=(rc_import=='0'),
                              baseline_tests=tests, demo_output_patched_tail=tail(S+'/demo_patched.log')),
            what_was_run=["git worktree add <scratch> HEAD", "python demo.py (clean) -> exit %s" % rc_clean,
                          "git apply patch.diff; python demo.py -> exit %s" % rc_patched,
                          "/verif/tools/baseline_tests.sh <scratch> -> %s" % tests],
            confirmed=(rc_clean=='0' and rc_patched!='0' and rc_import=='0' and (tests=='skipped' or 'BASELINE-TESTS OK' in tests)))
json.dump(meta, open('/verif/seeded/%s/meta.json' % sid, 'w'), indent=1)
print(sid, "confirmed" if meta['confirmed'] else "NOT CONFIRMED", rc_clean, rc_patched, tests)
PY
git -C /repo worktree remove --force "$S/r"; rm -rf "$S"
