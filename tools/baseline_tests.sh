#!/bin/sh
# usage: baseline_tests.sh <repo-dir>  : runs the pinned test suite in <repo-dir> and compares with BASELINE.json (46 stable tests)
D="${1:-/repo}"
OUT="$(mktemp /tmp/junit_XXXXXX.xml)"
cd "$D" && /venv/bin/python -m pytest -ra -q -p no:cacheprovider --timeout=900 --continue-on-collection-errors --junitxml="$OUT" >/dev/null 2>&1
python3 - "$OUT" <<'PY'
import json, sys, xml.etree.ElementTree as ET
b=json.load(open('/root/.vp/BASELINE.json'))
res={}
for tc in ET.parse(sys.argv[1]).iter('testcase'):
    name=tc.get('classname')+'::'+tc.get('name')
    bad=any(c.tag in ('failure','error') for c in tc)
    res.setdefault(name, True)
    if bad: res[name]=False
passed={k for k,v in res.items() if v}
missing=sorted(set(b['stable_pass'])-passed)
print("BASELINE-TESTS", "OK" if not missing else "MISSING", len(passed), missing)
sys.exit(0 if not missing else 1)
PY
RC=$?
rm -f "$OUT"
exit $RC
