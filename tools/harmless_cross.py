#!/usr/bin/env python3
"""Cross run: every behaviour-preserving change under seeded/harmless/ against the quick check of every OTHER property that has a
function under contract in a file the change touches (evidence/<id>.json names the files).  Expected: exit 0, no VIOLATION.
Writes seeded/harmless/cross.json and appends a section to seeded/harmless/README.md.  Usage: tools/harmless_cross.py [id ...]"""
import glob, json, os, re, subprocess, sys
HERE = os.path.dirname(os.path.dirname(os.path.abspath(__file__)))
D = os.path.join(HERE, 'seeded', 'harmless')


def main():
    files = {}
    for f in glob.glob(os.path.join(HERE, 'evidence', 'C*.json')):
        d = json.load(open(f))
        files[d['property_id']] = set((fn.get('file') or '').replace('/repo/', '') for fn in d['coverage'].get('functions_under_contract', []))
    ids = [] if sys.argv[1:] == ['--readme-only'] else sys.argv[1:] or sorted(x for x in os.listdir(D) if os.path.isdir(os.path.join(D, x)))
    rf = os.path.join(D, 'cross.json')
    res = json.load(open(rf)) if os.path.exists(rf) else {}
    for sid in ids:
        patch = open(os.path.join(D, sid, 'patch.diff')).read()
        touched = set(re.findall(r"^\+\+\+ b/(\S+)", patch, re.M))
        own = sid.split('-')[0]
        for prop in sorted(files):
            if prop == own or not (files[prop] & touched) or ("%s@%s" % (sid, prop)) in res:
                continue
            p = subprocess.run([os.path.join(HERE, 'tools', 'mutcheck.sh'), os.path.join(D, sid, 'patch.diff'), prop], capture_output=True, text=True, timeout=7200)
            out = p.stdout
            summ = [l for l in out.splitlines() if l.startswith('SUMMARY')]
            res["%s@%s" % (sid, prop)] = dict(exit=p.returncode, violations=len(re.findall(r"^VIOLATION", out, re.M)),
                                             stale=len(re.findall(r"^STALE-PROOF", out, re.M)),
                                             other=[l[:200] for l in out.splitlines() if l.startswith(('UNDECIDED', 'CHECKER-ERROR', 'VIOLATION', '  obligation'))][:6],
                                             summary=summ[-1] if summ else out[-300:])
            print(sid, prop, p.returncode, res["%s@%s" % (sid, prop)]['violations'], flush=True)
            import fcntl
            with open(rf + '.lock', 'w') as lk:          # several instances may run side by side: merge under a lock
                fcntl.flock(lk, fcntl.LOCK_EX)
                cur = json.load(open(rf)) if os.path.exists(rf) else {}
                cur["%s@%s" % (sid, prop)] = res["%s@%s" % (sid, prop)]
                res = cur
                json.dump(res, open(rf, 'w'), indent=1, sort_keys=True)
    bad = dict((k, v) for k, v in res.items() if v['exit'] != 0 or v['violations'])
    readme = os.path.join(D, 'README.md')
    txt = open(readme).read() if os.path.exists(readme) else ''
    txt = txt.split("\n## Cross runs")[0].rstrip() + "\n\n## Cross runs\n\n%d (change, other property) pairs were run (`cross.json`): a change is also checked against every other property with a function under contract in a file it touches. Non-zero exits or VIOLATION lines: %s\n" % (
        len(res), ("none" if not bad else "; ".join("%s exit %d" % (k, v['exit']) for k, v in sorted(bad.items()))))
    open(readme, 'w').write(txt)


main()
