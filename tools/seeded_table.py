#!/usr/bin/env python3
"""Runs every confirmed seeded change against the check of the property it breaks (scratch worktree, GASOL_REPO) and writes
seeded/README.md + seeded/detection.json.  Usage: tools/seeded_table.py [id ...]"""
import json, os, re, subprocess, sys
HERE = os.path.dirname(os.path.dirname(os.path.abspath(__file__)))
SEEDED = os.path.join(HERE, 'seeded')
EXTRA = {'C13-3': ['C12'], 'C05-4': ['C03']}      # also caught by these checks (the seed breaks the code of another property's check)


def run(seed, prop):
    pf = os.path.join(SEEDED, seed, 'patch_head.diff')
    p = subprocess.run([os.path.join(HERE, 'tools', 'mutcheck.sh'), pf if os.path.exists(pf) else os.path.join(SEEDED, seed, 'patch.diff'), prop],
                       capture_output=True, text=True, timeout=3600)
    out = p.stdout
    viol = re.findall(r"VIOLATION property=\S+ replay=\S+( no-failing-input-found)?\n\s+obligation: (.*)", out)
    summ = [l for l in out.splitlines() if l.startswith('SUMMARY')]
    return dict(exit=p.returncode, violated=[v[1] + (' [no-failing-input-found]' if v[0] else '') for v in viol], summary=summ[-1] if summ else '')


def main():
    if sys.argv[1:] == ['--readme-only']:
        ids = []
    else:
        ids = sys.argv[1:] or sorted(d for d in os.listdir(SEEDED) if os.path.isfile(os.path.join(SEEDED, d, 'meta.json')))
    det_file = os.path.join(SEEDED, 'detection.json')
    det = json.load(open(det_file)) if os.path.exists(det_file) else {}
    for sid in ids:
        meta = json.load(open(os.path.join(SEEDED, sid, 'meta.json')))
        prop = meta['breaks_property']
        r = run(sid, prop)
        det[sid] = dict(property=prop, check=prop, **r)
        for extra in EXTRA.get(sid, []):
            if not r['violated']:
                r2 = run(sid, extra)
                det[sid]['also'] = dict(check=extra, **r2)
        print(sid, prop, r['exit'], len(r['violated']), flush=True)
        # several instances may run side by side: merge under a lock
        import fcntl
        with open(det_file + '.lock', 'w') as lk:
            fcntl.flock(lk, fcntl.LOCK_EX)
            cur = json.load(open(det_file)) if os.path.exists(det_file) else {}
            cur[sid] = det[sid]
            det = cur
            json.dump(det, open(det_file, 'w'), indent=1, sort_keys=True)
    lines = ["# Seeded changes and the checks that catch them", "",
             "Each directory holds `patch.diff` (apply with `git -C /repo apply`), `demo.py` (exits 0 without the patch, non-zero with it), "
             "`notes.md` (the author's description) and `meta.json` (what it breaks, what it needs to manifest, how it was confirmed).",
             "The table is produced by `tools/seeded_table.py`: the patch is applied to a scratch worktree and the property's quick check is run against it.", "",
             "| seed | property | caught | first violated obligations |", "|---|---|---|---|"]
    for sid in sorted(det):
        d = det[sid]
        v = d['violated'] or (d.get('also', {}).get('violated') or [])
        where = d['check'] if d['violated'] else (d.get('also', {}).get('check', d['check']) if v else d['check'])
        lines.append("| %s | %s | %s | %s |" % (sid, d['property'], ("yes (%s)" % where) if v else "**no**", '; '.join(x[:110] for x in v[:2])))
    open(os.path.join(SEEDED, 'README.md'), 'w').write('\n'.join(lines) + '\n')


if __name__ == '__main__':
    main()
