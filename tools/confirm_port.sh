#!/bin/sh
# usage: confirm_port.sh <seed-id> : the ported patch (seeded/<id>/patch_head.diff) on /repo HEAD: demo passes clean, fails patched, modules import
ID="$1"; D=/verif/seeded/$ID
S="$(mktemp -d /tmp/gasol-seed-XXXXXX)"
git -C /repo worktree add -q --detach "$S/r" HEAD >/dev/null 2>&1 || { echo "cannot create worktree"; exit 3; }
cd "$S/r"; cp "$D/demo.py" demo.py
/venv/bin/python demo.py >/dev/null 2>&1; RC0=$?
git apply "$D/patch_head.diff" || { echo "$ID: port does not apply"; cd /; git -C /repo worktree remove --force "$S/r"; rm -rf "$S"; exit 2; }
/venv/bin/python demo.py >/dev/null 2>&1; RC1=$?
/venv/bin/python -c "import gasol_asm" >/dev/null 2>&1; RCI=$?
rm -f demo.py
T="$(/verif/tools/baseline_tests.sh "$S/r" | tail -1)"
echo "$ID port: clean=$RC0 patched=$RC1 import=$RCI tests=$T"
cd /; git -C /repo worktree remove --force "$S/r"; rm -rf "$S"
